import Stackage.Model.Val

/-!
# C20 specification: "only removes redundant wrappers"

Everything here is about plain trees (`Val`); nothing refers to how `Reveal` works.

* `leaves t`  — the depth-first sequence of everything that is not a Stack or a Condition
  (nil slots and zero-valued instances included), with, for each Condition, its keyword and
  operator at the place where the Condition stands;
* `depth t`   — nesting depth;
* `kept t`    — the depth-first sequence of the parenthetical and NOT stacks (with their
  configuration) and of the parenthetical Conditions;
* `Unwrap t t'` — one step: somewhere in `t`, an element of a stack that is a
  non-parenthetical, non-NOT stack with exactly one element, that element being a
  non-parenthetical *native* Stack or Condition (or a zero-valued native one), is replaced
  by that element; or a stack handle of any alias form is replaced by the native handle of
  the same stack;
* `UnwrapStar` — its reflexive-transitive closure;
* `nf t` — the fully unwrapped form (all stack handles native, no removable wrapper left);
* `reachable t t'` — a decision procedure for (a sufficient part of) `UnwrapStar`.

Proved for all trees: `UnwrapStar` preserves `leaves`, `kept` and `nf` and never increases
`depth`; `reachable` is sound.
-/

set_option linter.unusedSimpArgs false
set_option linter.unusedVariables false

namespace Stackage
namespace Tree

/-- one entry of the leaf sequence -/
inductive Item where
  | val (v : Val)                      -- a slot / expression value that is neither Stack nor Condition
  | cond (kw : Text) (op : Op)         -- a Condition: keyword and operator (its expression follows)
  deriving Repr, Inhabited

/-- `Stack.IsParen` (`nodeConfig.positive(parens)`: a valid configuration with the bit set) -/
def parenS (c : Cfg) : Bool := c.kind != 0 && Gen.cfgFlag_positive c.opt Gen.flag_parens

/-- `Condition.IsParen` (requires `IsInit`, i.e. `cfg.typ == cond`) -/
def parenC (c : Cfg) : Bool := c.kind == Gen.kind_cond && Gen.cfgFlag_positive c.opt Gen.flag_parens

mutual
def leaves : Val → List Item
  | .nil => [.val .nil]
  | .leaf l => [.val (.leaf l)]
  | .stk _ _ xs => leavesL xs
  | .cnd _ _ kw op ex => .cond kw op :: leaves ex
  | .zstk f => [.val (.zstk f)]
  | .zcnd f => [.val (.zcnd f)]
  | .anys xs => [.val (.anys xs)]
  | .opv o => [.val (.opv o)]
def leavesL : List Val → List Item
  | [] => []
  | x :: xs => leaves x ++ leavesL xs
end

mutual
def depth : Val → Nat
  | .stk _ _ xs => 1 + depthL xs
  | .cnd _ _ _ _ ex => 1 + depth ex
  | .nil => 0
  | .leaf _ => 0
  | .zstk _ => 0
  | .zcnd _ => 0
  | .anys _ => 0
  | .opv _ => 0
def depthL : List Val → Nat
  | [] => 0
  | x :: xs => max (depth x) (depthL xs)
end

/-- a node that must survive: parenthetical or NOT stack, parenthetical Condition -/
inductive Mark where
  | stack (c : Cfg)
  | cond (c : Cfg) (kw : Text) (op : Op)
  deriving Repr, Inhabited

/-- a stack that may never be removed -/
def keeps (c : Cfg) : Bool := parenS c || c.kind == Gen.kind_not

mutual
def kept : Val → List Mark
  | .stk _ c xs => (if keeps c then [.stack c] else []) ++ keptL xs
  | .cnd _ c kw op ex => (if parenC c then [.cond c kw op] else []) ++ kept ex
  | .nil => []
  | .leaf _ => []
  | .zstk _ => []
  | .zcnd _ => []
  | .anys _ => []
  | .opv _ => []
def keptL : List Val → List Mark
  | [] => []
  | x :: xs => kept x ++ keptL xs
end

/-- the wrapper side of the rule: not parenthetical, not NOT -/
def okWrapper (c : Cfg) : Bool := !parenS c && c.kind != Gen.kind_not

/-- the child side of the rule: a native, non-parenthetical Stack or Condition
(a zero-valued native instance is a Stack / Condition that is not parenthetical) -/
def okChild : Val → Bool
  | .stk .native c _ => !parenS c
  | .cnd .native c _ _ _ => !parenC c
  | .zstk .native => true
  | .zcnd .native => true
  | _ => false

/-- one unwrap step somewhere in the tree -/
inductive Unwrap : Val → Val → Prop
  /-- an alias handle is replaced by the native handle of the same stack -/
  | native (f : Form) (c : Cfg) (xs : List Val) : Unwrap (.stk f c xs) (.stk .native c xs)
  /-- an element that is a redundant wrapper is replaced by its only child -/
  | unwrap (f : Form) (c : Cfg) (pre post : List Val) (fw : Form) (cw : Cfg) (ch : Val) :
      okWrapper cw = true → okChild ch = true →
      Unwrap (.stk f c (pre ++ .stk fw cw [ch] :: post)) (.stk f c (pre ++ ch :: post))
  /-- a step inside an element of a stack -/
  | inStk (f : Form) (c : Cfg) (pre post : List Val) (x x' : Val) :
      Unwrap x x' → Unwrap (.stk f c (pre ++ x :: post)) (.stk f c (pre ++ x' :: post))
  /-- a step inside the expression of a Condition -/
  | inCnd (f : Form) (c : Cfg) (kw : Text) (op : Op) (ex ex' : Val) :
      Unwrap ex ex' → Unwrap (.cnd f c kw op ex) (.cnd f c kw op ex')

inductive UnwrapStar : Val → Val → Prop
  | refl (t : Val) : UnwrapStar t t
  | step {a b c : Val} : Unwrap a b → UnwrapStar b c → UnwrapStar a c

namespace UnwrapStar

theorem single {a b : Val} (h : Unwrap a b) : UnwrapStar a b := .step h (.refl b)

theorem trans {a b c : Val} (h1 : UnwrapStar a b) (h2 : UnwrapStar b c) : UnwrapStar a c := by
  induction h1 with
  | refl => exact h2
  | step s _ ih => exact .step s (ih h2)

theorem of_eq {a b : Val} (h : a = b) : UnwrapStar a b := h ▸ .refl a

/-- steps inside an element lift to the stack -/
theorem inStk (f : Form) (c : Cfg) (pre post : List Val) {x x' : Val} (h : UnwrapStar x x') :
    UnwrapStar (.stk f c (pre ++ x :: post)) (.stk f c (pre ++ x' :: post)) := by
  induction h with
  | refl => exact .refl _
  | step s _ ih => exact .step (.inStk f c pre post _ _ s) ih

/-- steps inside the expression lift to the Condition -/
theorem inCnd (f : Form) (c : Cfg) (kw : Text) (op : Op) {x x' : Val} (h : UnwrapStar x x') :
    UnwrapStar (.cnd f c kw op x) (.cnd f c kw op x') := by
  induction h with
  | refl => exact .refl _
  | step s _ ih => exact .step (.inCnd f c kw op _ _ s) ih

end UnwrapStar

/-- "`a` may become `b` where it stands as an element of a stack" -/
def ERel (a b : Val) : Prop :=
  ∀ (f : Form) (c : Cfg) (pre post : List Val),
    UnwrapStar (.stk f c (pre ++ a :: post)) (.stk f c (pre ++ b :: post))

namespace ERel

theorem refl (a : Val) : ERel a a := fun _ _ _ _ => .refl _

theorem trans {a b c : Val} (h1 : ERel a b) (h2 : ERel b c) : ERel a c :=
  fun f k pre post => (h1 f k pre post).trans (h2 f k pre post)

theorem of_star {a b : Val} (h : UnwrapStar a b) : ERel a b :=
  fun f c pre post => h.inStk f c pre post

/-- the rule itself, in element position -/
theorem unwrap (fw : Form) (cw : Cfg) (ch : Val) (h1 : okWrapper cw = true) (h2 : okChild ch = true) :
    ERel (.stk fw cw [ch]) ch :=
  fun f c pre post => .single (.unwrap f c pre post fw cw ch h1 h2)

/-- alias handle to native handle, in element position -/
theorem native (f : Form) (c : Cfg) (xs : List Val) : ERel (.stk f c xs) (.stk .native c xs) :=
  of_star (.single (.native f c xs))

end ERel

/-- two lists related element by element -/
inductive All₂ (R : Val → Val → Prop) : List Val → List Val → Prop
  | nil : All₂ R [] []
  | cons {x y : Val} {xs ys : List Val} : R x y → All₂ R xs ys → All₂ R (x :: xs) (y :: ys)

/-- element-wise `ERel` lifts to the whole element list -/
theorem star_of_forall₂ (f : Form) (c : Cfg) :
    ∀ (xs ys : List Val), All₂ ERel xs ys → ∀ (pre post : List Val),
      UnwrapStar (.stk f c (pre ++ xs ++ post)) (.stk f c (pre ++ ys ++ post)) := by
  intro xs ys h
  induction h with
  | nil => intro pre post; exact .refl _
  | @cons x y xs ys hxy _ ih =>
    intro pre post
    have h1 := hxy f c pre (xs ++ post)
    have h2 := ih (pre ++ [y]) post
    simp only [List.append_assoc, List.cons_append, List.nil_append] at h1 h2 ⊢
    exact h1.trans h2

theorem star_stk_of_forall₂ (f : Form) (c : Cfg) (xs ys : List Val) (h : All₂ ERel xs ys) :
    UnwrapStar (.stk f c xs) (.stk f c ys) := by
  have := star_of_forall₂ f c xs ys h [] []
  simpa using this

/-! ## What every step preserves -/

theorem leavesL_append (a b : List Val) : leavesL (a ++ b) = leavesL a ++ leavesL b := by
  induction a with
  | nil => simp [leavesL]
  | cons x xs ih => simp [leavesL, ih]

theorem keptL_append (a b : List Val) : keptL (a ++ b) = keptL a ++ keptL b := by
  induction a with
  | nil => simp [keptL]
  | cons x xs ih => simp [keptL, ih]

theorem depthL_append (a b : List Val) : depthL (a ++ b) = max (depthL a) (depthL b) := by
  induction a with
  | nil => simp [depthL]
  | cons x xs ih => simp only [List.cons_append, depthL, ih]; omega

theorem okWrapper_not_keeps {c : Cfg} (h : okWrapper c = true) : keeps c = false := by
  unfold okWrapper at h; unfold keeps
  cases hp : parenS c <;> cases hk : (c.kind == Gen.kind_not) <;> simp_all

theorem okChild_depth {ch : Val} (h : okChild ch = true) : depth ch ≤ 1 + depthL [ch] := by
  simp only [depthL]; omega

theorem Unwrap.leaves_eq {t t' : Val} (h : Unwrap t t') : leaves t = leaves t' := by
  induction h with
  | native f c xs => simp [leaves]
  | unwrap f c pre post fw cw ch _ _ => simp [leaves, leavesL, leavesL_append]
  | inStk f c pre post x x' _ ih => simp [leaves, leavesL, leavesL_append, ih]
  | inCnd f c kw op ex ex' _ ih => simp [leaves, ih]

theorem Unwrap.kept_eq {t t' : Val} (h : Unwrap t t') : kept t = kept t' := by
  induction h with
  | native f c xs => simp [kept]
  | unwrap f c pre post fw cw ch hw _ =>
    simp [kept, keptL, keptL_append, okWrapper_not_keeps hw]
  | inStk f c pre post x x' _ ih => simp [kept, keptL, keptL_append, ih]
  | inCnd f c kw op ex ex' _ ih => simp [kept, ih]

theorem Unwrap.depth_le {t t' : Val} (h : Unwrap t t') : depth t' ≤ depth t := by
  induction h with
  | native f c xs => simp [depth]
  | unwrap f c pre post fw cw ch _ _ =>
    simp only [depth, depthL, depthL_append]; omega
  | inStk f c pre post x x' _ ih =>
    simp only [depth, depthL, depthL_append]; omega
  | inCnd f c kw op ex ex' _ ih => simp only [depth]; omega

/-! ## The fully unwrapped form -/

/-- remove the node if it is a redundant wrapper (its child is already in normal form) -/
def peel : Val → Val
  | .stk f c [ch] => if okWrapper c && okChild ch then ch else .stk f c [ch]
  | v => v

mutual
/-- normal form of a tree whose root stays (the receiver, the expression of a Condition) -/
def nf : Val → Val
  | .stk _ c xs => .stk .native c (nfL xs)
  | .cnd f c kw op ex => .cnd f c kw op (nf ex)
  | .nil => .nil
  | .leaf l => .leaf l
  | .zstk f => .zstk f
  | .zcnd f => .zcnd f
  | .anys xs => .anys xs
  | .opv o => .opv o
/-- normal forms of the elements of a stack: each normalised, then removed if redundant -/
def nfL : List Val → List Val
  | [] => []
  | x :: xs => peel (nf x) :: nfL xs
end

/-- normal form in element position -/
def nfE (x : Val) : Val := peel (nf x)

theorem nfL_append (a b : List Val) : nfL (a ++ b) = nfL a ++ nfL b := by
  induction a with
  | nil => simp [nfL]
  | cons x xs ih => simp [nfL, ih]

theorem okChild_peel_nf {ch : Val} (h : okChild ch = true) : okChild (peel (nf ch)) = true := by
  cases ch with
  | nil => simp [okChild] at h
  | leaf l => simp [okChild] at h
  | anys xs => simp [okChild] at h
  | opv o => simp [okChild] at h
  | zstk f => cases f <;> simp_all [okChild, nf, peel]
  | zcnd f => cases f <;> simp_all [okChild, nf, peel]
  | cnd f c kw op ex => cases f <;> simp_all [okChild, nf, peel]
  | stk f c xs =>
    cases f <;> simp [okChild] at h
    simp only [nf]
    match hx : nfL xs with
    | [] => simp [peel, okChild, h]
    | [y] =>
      simp only [peel]
      split
      · rename_i hc; simp only [Bool.and_eq_true] at hc; exact hc.2
      · simp [okChild, h]
    | y :: z :: rest => simp [peel, okChild, h]

theorem peel_wrapper (f : Form) (c : Cfg) (y : Val) (h1 : okWrapper c = true) (h2 : okChild y = true) :
    peel (.stk f c [y]) = y := by
  simp [peel, h1, h2]

theorem Unwrap.nf_eq {t t' : Val} (h : Unwrap t t') : nf t = nf t' := by
  induction h with
  | native f c xs => simp [nf]
  | unwrap f c pre post fw cw ch hw hc =>
    have h1 : nf (.stk fw cw [ch]) = .stk .native cw [peel (nf ch)] := by simp [nf, nfL]
    simp only [nf, nfL, nfL_append, h1, peel_wrapper _ _ _ hw (okChild_peel_nf hc)]
  | inStk f c pre post x x' _ ih => simp [nf, nfL, nfL_append, ih]
  | inCnd f c kw op ex ex' _ ih => simp [nf, ih]

/-- removing a redundant wrapper in element position is a legal step -/
theorem ERel.peel (x : Val) : ERel x (peel x) := by
  unfold Tree.peel
  split
  · rename_i f c ch
    split
    · rename_i h
      simp only [Bool.and_eq_true] at h
      exact ERel.unwrap f c ch h.1 h.2
    · exact ERel.refl _
  · exact ERel.refl _

mutual
/-- `nf t` is reached from `t` by legal steps: it is a fully unwrapped *form of `t`* -/
theorem nf_star : ∀ (t : Val), UnwrapStar t (nf t)
  | .nil => by simp only [nf]; exact .refl _
  | .leaf l => by simp only [nf]; exact .refl _
  | .zstk f => by simp only [nf]; exact .refl _
  | .zcnd f => by simp only [nf]; exact .refl _
  | .anys xs => by simp only [nf]; exact .refl _
  | .opv o => by simp only [nf]; exact .refl _
  | .stk f c xs => by
      simp only [nf]
      exact (UnwrapStar.single (.native f c xs)).trans (star_stk_of_forall₂ .native c xs (nfL xs) (nfL_all₂ xs))
  | .cnd f c kw op ex => by
      simp only [nf]
      exact (nf_star ex).inCnd f c kw op
theorem nfL_all₂ : ∀ (xs : List Val), All₂ ERel xs (nfL xs)
  | [] => by simp only [nfL]; exact .nil
  | x :: xs => by
      simp only [nfL]
      exact .cons ((ERel.of_star (nf_star x)).trans (ERel.peel (nf x))) (nfL_all₂ xs)
end

/-! ## The closure inherits all of it -/

theorem UnwrapStar.leaves_eq {t t' : Val} (h : UnwrapStar t t') : leaves t = leaves t' := by
  induction h with
  | refl => rfl
  | step s _ ih => rw [s.leaves_eq, ih]

theorem UnwrapStar.kept_eq {t t' : Val} (h : UnwrapStar t t') : kept t = kept t' := by
  induction h with
  | refl => rfl
  | step s _ ih => rw [s.kept_eq, ih]

theorem UnwrapStar.depth_le {t t' : Val} (h : UnwrapStar t t') : depth t' ≤ depth t := by
  induction h with
  | refl => exact Nat.le_refl _
  | step s _ ih => exact Nat.le_trans ih s.depth_le

theorem UnwrapStar.nf_eq {t t' : Val} (h : UnwrapStar t t') : nf t = nf t' := by
  induction h with
  | refl => rfl
  | step s _ ih => rw [s.nf_eq, ih]

/-- `nf` decides joinability: two trees have the same normal form iff some tree is reachable from both -/
theorem nf_eq_iff_joinable (a b : Val) : nf a = nf b ↔ ∃ c, UnwrapStar a c ∧ UnwrapStar b c := by
  constructor
  · intro h; exact ⟨nf a, nf_star a, h ▸ nf_star b⟩
  · rintro ⟨c, h1, h2⟩; rw [h1.nf_eq, h2.nf_eq]

/-! ## Deciding reachability -/

mutual
def beqV : Val → Val → Bool
  | .nil, t => (match t with | .nil => true | _ => false)
  | .leaf a, t => (match t with | .leaf b => a == b | _ => false)
  | .stk f c xs, t => (match t with | .stk f' c' xs' => f == f' && c == c' && beqL xs xs' | _ => false)
  | .cnd f c kw op ex, t =>
      (match t with
       | .cnd f' c' kw' op' ex' => f == f' && c == c' && kw == kw' && op == op' && beqV ex ex'
       | _ => false)
  | .zstk f, t => (match t with | .zstk f' => f == f' | _ => false)
  | .zcnd f, t => (match t with | .zcnd f' => f == f' | _ => false)
  | .anys xs, t => (match t with | .anys xs' => beqL xs xs' | _ => false)
  | .opv o, t => (match t with | .opv o' => o == o' | _ => false)
def beqL : List Val → List Val → Bool
  | [], ys => (match ys with | [] => true | _ => false)
  | x :: xs, ys => (match ys with | y :: ys' => beqV x y && beqL xs ys' | [] => false)
end

mutual
theorem beqV_sound : ∀ (a b : Val), beqV a b = true → a = b
  | .nil, b, h => by cases b <;> simp_all [beqV]
  | .leaf a, b, h => by cases b <;> simp_all [beqV]
  | .zstk f, b, h => by cases b <;> simp_all [beqV]
  | .zcnd f, b, h => by cases b <;> simp_all [beqV]
  | .opv o, b, h => by cases b <;> simp_all [beqV]
  | .anys xs, b, h => by
      cases b <;> simp [beqV] at h
      rename_i ys
      rw [beqL_sound xs ys h]
  | .stk f c xs, b, h => by
      cases b <;> simp [beqV] at h
      rename_i f' c' ys
      obtain ⟨⟨h1, h2⟩, h3⟩ := h
      rw [h1, h2, beqL_sound xs ys h3]
  | .cnd f c kw op ex, b, h => by
      cases b <;> simp [beqV] at h
      rename_i f' c' kw' op' ex'
      obtain ⟨⟨⟨⟨h1, h2⟩, h3⟩, h4⟩, h5⟩ := h
      rw [h1, h2, h3, h4, beqV_sound ex ex' h5]
theorem beqL_sound : ∀ (a b : List Val), beqL a b = true → a = b
  | [], b, h => by cases b <;> simp_all [beqL]
  | x :: xs, b, h => by
      cases b <;> simp [beqL] at h
      rename_i y ys
      rw [beqV_sound x y h.1, beqL_sound xs ys h.2]
end

/-- the form of a stack handle may stay or become native -/
def formOk (f f' : Form) : Bool := f' == f || f' == .native

mutual
/-- `t'` from `t`, the root staying in place -/
def reach : Val → Val → Bool
  | .stk f c xs, t' =>
      (match t' with | .stk f' c' xs' => formOk f f' && c == c' && reachL xs xs' | _ => false)
  | .cnd f c kw op ex, t' =>
      (match t' with
       | .cnd f' c' kw' op' ex' => f == f' && c == c' && kw == kw' && op == op' && reach ex ex'
       | _ => false)
  | .nil, t' => beqV .nil t'
  | .leaf l, t' => beqV (.leaf l) t'
  | .zstk f, t' => beqV (.zstk f) t'
  | .zcnd f, t' => beqV (.zcnd f) t'
  | .anys xs, t' => beqV (.anys xs) t'
  | .opv o, t' => beqV (.opv o) t'
/-- `t'` from `t` standing as an element of a stack: additionally `t` itself may be a
redundant wrapper that is removed (after its child has become `t'`) -/
def reachE : Val → Val → Bool
  | .stk f c xs, t' =>
      (match t' with | .stk f' c' xs' => formOk f f' && c == c' && reachL xs xs' | _ => false)
      || (okWrapper c && okChild t' && reachW xs t')
  | .cnd f c kw op ex, t' =>
      (match t' with
       | .cnd f' c' kw' op' ex' => f == f' && c == c' && kw == kw' && op == op' && reach ex ex'
       | _ => false)
  | .nil, t' => beqV .nil t'
  | .leaf l, t' => beqV (.leaf l) t'
  | .zstk f, t' => beqV (.zstk f) t'
  | .zcnd f, t' => beqV (.zcnd f) t'
  | .anys xs, t' => beqV (.anys xs) t'
  | .opv o, t' => beqV (.opv o) t'
/-- the only element of a one-element list reaches `t'` in element position -/
def reachW : List Val → Val → Bool
  | [], _ => false
  | x :: rest, t' => (match rest with | [] => reachE x t' | _ => false)
def reachL : List Val → List Val → Bool
  | [], ys => (match ys with | [] => true | _ => false)
  | x :: xs, ys => (match ys with | y :: ys' => reachE x y && reachL xs ys' | [] => false)
end

/-- the decision procedure used by the driver on every explored (before, after) pair -/
def reachable (t t' : Val) : Bool := reach t t'

theorem star_form (f f' : Form) (c : Cfg) (xs : List Val) (h : formOk f f' = true) :
    UnwrapStar (.stk f c xs) (.stk f' c xs) := by
  unfold formOk at h
  simp only [Bool.or_eq_true, beq_iff_eq] at h
  rcases h with h | h
  · subst h; exact .refl _
  · subst h; exact .single (.native f c xs)

mutual
theorem reach_sound : ∀ (t t' : Val), reach t t' = true → UnwrapStar t t'
  | .nil, t', h => by simp only [reach] at h; exact .of_eq (beqV_sound _ _ h)
  | .leaf l, t', h => by simp only [reach] at h; exact .of_eq (beqV_sound _ _ h)
  | .zstk f, t', h => by simp only [reach] at h; exact .of_eq (beqV_sound _ _ h)
  | .zcnd f, t', h => by simp only [reach] at h; exact .of_eq (beqV_sound _ _ h)
  | .anys xs, t', h => by simp only [reach] at h; exact .of_eq (beqV_sound _ _ h)
  | .opv o, t', h => by simp only [reach] at h; exact .of_eq (beqV_sound _ _ h)
  | .stk f c xs, t', h => by
      cases t' <;> simp [reach] at h
      rename_i f' c' xs'
      obtain ⟨⟨h1, h2⟩, h3⟩ := h
      subst h2
      exact (star_stk_of_forall₂ f c xs xs' (reachL_sound xs xs' h3)).trans (star_form f f' c xs' h1)
  | .cnd f c kw op ex, t', h => by
      cases t' <;> simp [reach] at h
      rename_i f' c' kw' op' ex'
      obtain ⟨⟨⟨⟨h1, h2⟩, h3⟩, h4⟩, h5⟩ := h
      subst h1 h2 h3 h4
      exact (reach_sound ex ex' h5).inCnd f c kw op
theorem reachE_sound : ∀ (t t' : Val), reachE t t' = true → ERel t t'
  | .nil, t', h => by simp only [reachE] at h; exact .of_star (.of_eq (beqV_sound _ _ h))
  | .leaf l, t', h => by simp only [reachE] at h; exact .of_star (.of_eq (beqV_sound _ _ h))
  | .zstk f, t', h => by simp only [reachE] at h; exact .of_star (.of_eq (beqV_sound _ _ h))
  | .zcnd f, t', h => by simp only [reachE] at h; exact .of_star (.of_eq (beqV_sound _ _ h))
  | .anys xs, t', h => by simp only [reachE] at h; exact .of_star (.of_eq (beqV_sound _ _ h))
  | .opv o, t', h => by simp only [reachE] at h; exact .of_star (.of_eq (beqV_sound _ _ h))
  | .cnd f c kw op ex, t', h => by
      cases t' <;> simp [reachE] at h
      rename_i f' c' kw' op' ex'
      obtain ⟨⟨⟨⟨h1, h2⟩, h3⟩, h4⟩, h5⟩ := h
      subst h1 h2 h3 h4
      exact .of_star ((reach_sound ex ex' h5).inCnd f c kw op)
  | .stk f c xs, t', h => by
      unfold reachE at h
      simp only [Bool.or_eq_true, Bool.and_eq_true] at h
      rcases h with h | ⟨⟨hw, hc⟩, h3⟩
      · cases t' <;> simp at h
        rename_i f' c' xs'
        obtain ⟨⟨h1, h2⟩, h3⟩ := h
        subst h2
        exact .of_star ((star_stk_of_forall₂ f c xs xs' (reachL_sound xs xs' h3)).trans (star_form f f' c xs' h1))
      · obtain ⟨ch, hx, hr⟩ := reachW_sound xs t' h3
        subst hx
        -- first the child becomes t' inside the wrapper, then the wrapper goes
        have h1 : ERel (.stk f c [ch]) (.stk f c [t']) := .of_star (by simpa using hr f c [] [])
        exact h1.trans (.unwrap f c t' hw hc)
theorem reachW_sound : ∀ (xs : List Val) (t' : Val), reachW xs t' = true → ∃ ch, xs = [ch] ∧ ERel ch t'
  | [], t', h => by simp [reachW] at h
  | x :: rest, t', h => by
      cases rest with
      | nil => simp only [reachW] at h; exact ⟨x, rfl, reachE_sound x t' h⟩
      | cons y ys => simp [reachW] at h
theorem reachL_sound : ∀ (xs ys : List Val), reachL xs ys = true → All₂ ERel xs ys
  | [], ys, h => by
      cases ys with
      | nil => exact .nil
      | cons y ys => simp [reachL] at h
  | x :: xs, ys, h => by
      cases ys <;> simp [reachL] at h
      rename_i y ys'
      exact .cons (reachE_sound x y h.1) (reachL_sound xs ys' h.2)
end

/-- **soundness of the decision procedure**: a `true` verdict is a derivation -/
theorem reachable_sound {t t' : Val} (h : reachable t t' = true) : UnwrapStar t t' :=
  reach_sound t t' h

end Tree
end Stackage
