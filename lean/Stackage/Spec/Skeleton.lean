import Stackage.Model.Marshal

/-!
# C04 — what `Marshal(Unmarshal(S))` reconstructs: the skeleton of `S`

Same kinds, same element order, same leaf values, same Condition keyword / operator /
expression at every position; configuration (capacity, options, alias form) is not carried
by the marshalled form and comes back as the default.
-/

namespace Stackage

mutual
/-- an element of a Stack, reconstructed -/
def skelElem : Val → Val
  | .stk _ c xs => .stk .native { kind := c.kind } (skelElems xs)
  | .cnd _ _ kw op ex => cndVal (Cnd.cond {} (strV kw) op (skelExpr ex))
  | v => v

def skelElems : List Val → List Val
  | [] => []
  | x :: rest => skelElem x :: skelElems rest

/-- a Condition's expression, reconstructed: a Stack is rebuilt, a Condition is rebuilt (an
independent native Condition with the same keyword, operator and - recursively - expression),
everything else is the very same value -/
def skelExpr : Val → Val
  | .stk _ c xs => .stk .native { kind := c.kind } (skelElems xs)
  | .cnd _ _ kw op ex => cndVal (Cnd.cond {} (strV kw) op (skelExpr ex))
  | v => v
end

def Stk.skel (s : Stk) : Val := .stk .native { kind := s.cfg.kind } (skelElems s.xs)

mutual
/-- labels compared case-insensitively: upper-case the first entry of every row
(structurally recursive, so that it can be reasoned about; same function as the earlier
`partial def` with `rest.map upperLabels`) -/
def upperLabels : Val → Val
  | .anys (.leaf (.str l) :: rest) => .anys (.leaf (.str (l.map goUpper)) :: upperLabelsL rest)
  | .anys xs => .anys (upperLabelsL xs)
  | v => v

def upperLabelsL : List Val → List Val
  | [] => []
  | x :: rest => upperLabels x :: upperLabelsL rest
end

end Stackage
