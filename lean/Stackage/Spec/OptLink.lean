import Stackage.Spec.OptSpec

/-!
# C18: how the specification alphabet and state relate to the model

`Opt.flag` names the regenerated flag behind each option, `Call.toModel` the model call a specification call
stands for, `abs` reads the independent switches off a configuration through the model's own getter
(`Cfg.positive`). The refinement theorems in `Props/C18.lean` are stated over these.
-/

namespace Stackage
namespace OptSpec

def Opt.flag : Opt → Nat
  | .paren => Gen.flag_parens | .fold => Gen.flag_cfold | .nopad => Gen.flag_nspad | .lonce => Gen.flag_lonce
  | .neg => Gen.flag_negidx | .fwd => Gen.flag_fwdidx | .nnest => Gen.flag_nnest | .ronly => Gen.flag_ronly

def Call.toModel : Call → OptCall
  | .state o st => .state o.flag st
  | .fifo b => .fifo b
  | .id s g => .id s g
  | .cat s => .cat s
  | .delim x => .delim x
  | .sym xs => .sym xs
  | .enc xs => .enc xs
  | .aux a => .aux a
  | .lvlSet xs => .lvlSet xs
  | .lvlUnset xs => .lvlUnset xs

/-- the 16 level switches of a level word -/
def lvlAbs (r : Nat) : List Bool := (List.range 16).map (fun i => r.testBit i)

/-- the specification's view of a configuration -/
def abs (c : Cfg) : St :=
  { paren := c.positive Gen.flag_parens, fold := c.positive Gen.flag_cfold, nopad := c.positive Gen.flag_nspad,
    lonce := c.positive Gen.flag_lonce, neg := c.positive Gen.flag_negidx, fwd := c.positive Gen.flag_fwdidx,
    nnest := c.positive Gen.flag_nnest, ronly := c.positive Gen.flag_ronly,
    fifo := c.fifo, isList := c.kind == Gen.kind_list, sym := c.sym, delim := c.ljc, enc := c.enc, id := c.id, cat := c.cat,
    aux := c.aux, lvl := lvlAbs c.lvl }

end OptSpec
end Stackage
