import Stackage.Props.C01
open Stackage Stackage.Stk
#print axioms C01_step
#print axioms C01_history
#print axioms C01_index
#print axioms C01_front
