import Stackage.Props.C01
import Stackage.Props.C20
open Stackage Stackage.Stk
#print axioms C01_step
#print axioms C01_history
#print axioms C01_index
#print axioms C01_front
#print axioms C20_only_unwraps
#print axioms C20_leaves
#print axioms C20_no_deadlock
#print axioms C20_no_panic
#print axioms C20_terminates
#print axioms C20_tree
#print axioms C20_tree_returns
#print axioms Tree.reachable_sound
