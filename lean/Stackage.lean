-- Root of the `Stackage` library.
import Stackage.Basic
import Stackage.Gen.Consts
import Stackage.Gen.Funcs
import Stackage.Gen.Conds
import Stackage.Gen.Facts
import Stackage.Model.Val
import Stackage.Model.Ops
import Stackage.Gen.Opts
import Stackage.Model.LogLevel
import Stackage.Model.Options
import Stackage.Spec.OptSpec
import Stackage.Spec.OptLink
import Stackage.Model.Defrag
import Stackage.Spec.DefragSpec
import Stackage.Props.C20
import Stackage.Model.EV
import Stackage.Model.Equal
