-- Root of the `Stackage` library.
import Stackage.Basic
import Stackage.Gen.Consts
import Stackage.Gen.Funcs
import Stackage.Gen.Conds
import Stackage.Gen.Facts
import Stackage.Model.Val
import Stackage.Model.Ops
import Stackage.Model.EV
import Stackage.Model.Equal
