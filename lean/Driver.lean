import Stackage.Driver.Hist
import Stackage.Driver.Render
import Stackage.Driver.Cond
import Stackage.Driver.Marshal
import Stackage.Driver.Traverse
import Stackage.Driver.Alias
import Stackage.Driver.Opts
import Stackage.Driver.Sweep
import Stackage.Driver.Defrag
import Stackage.Driver.Reveal
import Stackage.Driver.Sched
import Stackage.Driver.Equal
import Stackage.Driver.Closures
import Stackage.Driver.GenFuncs

/-! Correspondence driver: case lines on stdin, `<id> M <model>` and `<id> S <spec>` lines on stdout. -/

open Stackage.Driver

def dispatch (stream payload : String) : String × String × String :=
  if ["hist", "histx", "capx", "resets", "nest", "pol", "xfer", "xferro", "awk"].contains stream then runHist payload
  else if stream == "render" then runRender payload
  else if stream == "strunit" then runStrUnit payload
  else if stream == "rerender" then runRerender payload
  else if stream == "condhist" then runCondHist payload
  else if stream == "roundtrip" then runRoundtrip payload
  else if stream == "anytrees" then runAnyTrees payload
  else if stream == "paths" then runPaths payload
  else if stream == "alias" then runAlias payload
  else if stream == "opts" then runOpts payload
  else if ["frozen", "inert", "initonly", "queries", "nestedro"].contains stream then runSweep payload
  else if stream == "freepol" then runFreePol payload
  else if stream == "sealpol" then runSealPol payload
  else if stream == "nilpat" then runDefrag payload
  else if stream == "revealtrees" then runReveal payload
  else if stream == "sched" then runSched payload
  else if stream == "eqpair" || stream == "eqmut" then runEq false payload else if stream == "equnit" then runEq true payload
  else if stream == "eqseqs" then runEqSeqs payload
  else if stream == "genfuncs" then runGenFuncs payload
  else if stream == "closures" then runClosures payload
  else ("NOSTREAM", "NOSTREAM", "")

partial def loop (h : IO.FS.Stream) (out : IO.FS.Stream) : IO Unit := do
  let line ← h.getLine
  if line.isEmpty then return ()
  let line := line.trimAscii.toString
  if line.isEmpty then loop h out else
  match line.splitOn " | " with
  | hd :: rest =>
    match words hd with
    | [stream, id] =>
      let (m, s, k) := dispatch stream (" | ".intercalate rest)
      out.putStrLn s!"{id} M {m}"
      out.putStrLn s!"{id} S {s}"
      out.putStrLn s!"{id} K {k}"
    | _ => out.putStrLn "? BADLINE"
    loop h out
  | _ => loop h out

def main : IO Unit := do
  let stdin ← IO.getStdin
  let stdout ← IO.getStdout
  loop stdin stdout
