/-! Prototype (design-phase note, not framework code): Go's `stack.index` /
`factorNegIndex` with 64-bit wrap-around, and the position specification. -/
def MinInt : Int := -(2^63)
def wrap64 (x : Int) : Int := ((x + 2^63) % 2^64) - 2^63
theorem wrap64_id {x : Int} (h1 : -(2^63) ≤ x) (h2 : x < 2^63) : wrap64 x = x := by
  unfold wrap64; omega

def factorNegIndex (i l : Int) : Int :=
  let i := wrap64 (i + wrap64 (l * 2))
  if i > l - 1 then wrap64 (wrap64 (i - l) + 1) else wrap64 (i + 1)

theorem factorNegIndex_spec (i L : Int) (hL0 : 0 < L) (hL : L < 2^62) (h1 : -L ≤ i) (h2 : i < 0) :
    factorNegIndex i L = L + i + 1 := by
  unfold factorNegIndex
  have e1 : wrap64 (L * 2) = L * 2 := wrap64_id (by omega) (by omega)
  have e2 : wrap64 (i + L * 2) = i + L * 2 := wrap64_id (by omega) (by omega)
  simp only [e1, e2]
  have : i + L * 2 > L - 1 := by omega
  simp only [this, ↓reduceIte]
  have e3 : wrap64 (i + L * 2 - L) = i + L * 2 - L := wrap64_id (by omega) (by omega)
  rw [e3]
  have e4 : wrap64 (i + L * 2 - L + 1) = i + L * 2 - L + 1 := wrap64_id (by omega) (by omega)
  rw [e4]; omega

/-- raw slot chosen by `index` (before the nil test); `guardNeg` is the regenerated guard -/
def rawIndex (guardNeg : Int → Int → Bool) (L : Int) (neg fwd : Bool) (i : Int) : Option Int :=
  if L > 0 then
    if i < 0 then (if neg && guardNeg i L then some (factorNegIndex i L) else none)
    else if i > L - 1 then (if fwd then some L else none)
    else some (wrap64 (i + 1))
  else none

def guardOld (i L : Int) : Bool := wrap64 (i - wrap64 (i * 2)) ≤ L   -- `i-(i*2) <= L`
def guardNew (i L : Int) : Bool := -L ≤ i                            -- repaired

def posSpec (L : Int) (neg fwd : Bool) (i : Int) : Option Int :=
  if 0 ≤ i ∧ i < L then some i
  else if i < 0 ∧ neg = true ∧ -L ≤ i then some (L + i)
  else if i ≥ L ∧ fwd = true ∧ L > 0 then some (L - 1)
  else none

theorem rawIndex_new_spec (L i : Int) (neg fwd : Bool)
    (hL0 : 0 ≤ L) (hL : L < 2^62) (hi1 : -(2^63) ≤ i) (hi2 : i < 2^63) :
    rawIndex guardNew L neg fwd i = (posSpec L neg fwd i).map (· + 1) := by
  unfold rawIndex posSpec guardNew
  by_cases hLp : L > 0
  · simp only [hLp, ↓reduceIte]
    by_cases hneg : i < 0
    · have hn : ¬ (0 ≤ i ∧ i < L) := by omega
      have hn2 : ¬ (i ≥ L ∧ fwd = true ∧ L > 0) := by omega
      simp only [hneg, ↓reduceIte, hn, hn2]
      by_cases hg : -L ≤ i
      · cases neg
        · simp; intro h; omega
        · simp [hg, factorNegIndex_spec i L hLp hL hg hneg]
      · cases neg <;> simp [hg] <;> (intro h; omega)
    · by_cases hbig : i > L - 1
      · have hn : ¬ (0 ≤ i ∧ i < L) := by omega
        have hn1 : ¬ (i < 0 ∧ neg = true ∧ -L ≤ i) := by omega
        have hge : i ≥ L := by omega
        cases fwd
        · simp [hneg, hbig, hn, hn1]
        · simp [hneg, hbig, hn, hn1, hge, hLp]
      · have hy : 0 ≤ i ∧ i < L := by omega
        have e : wrap64 (i + 1) = i + 1 := wrap64_id (by omega) (by omega)
        simp [hneg, hbig, hy, e]
  · have h0 : L = 0 := by omega
    subst h0
    have hn : ¬ (0 ≤ i ∧ i < 0) := by omega
    have hn1 : ¬ (i < 0 ∧ neg = true ∧ (0:Int) ≤ i) := by omega
    simp [hn, hn1]

/-- the unrepaired guard at MinInt selects a negative raw slot: Go panics -/
example : rawIndex guardOld 2 true false MinInt = some (-9223372036854775803) := by decide
#print axioms rawIndex_new_spec
