package main

// Exhaustive part of stream `revealtrees` (C20, thorough tier): every tree of at most revEnumSize nodes over the
// shapes that matter to Reveal - leaf, nil, AND / NOT stack (parenthetical or not, 0..3 children), Condition holding a
// leaf or a stack (parenthetical or not) - under an AND receiver. The first cases of a thorough run (by case index)
// walk this list; the remaining ones are random (genRevealTree).

import "sync"

const revEnumSize = 5

var (
	revEnumOnce sync.Once
	revEnumAll  []V
)

// revTrees(n): all element trees with exactly n nodes
func revTrees(n int, memo map[int][]V) []V {
	if ts, ok := memo[n]; ok {
		return ts
	}
	var out []V
	if n == 1 {
		out = append(out, V{T: 'i', I: 1}, V{T: 'N'})
	}
	// stacks: one node plus a forest of n-1 nodes, at most three children
	for _, kind := range []int{1, 3} {
		for _, paren := range []int{0, fParen} {
			for _, kids := range revForests(n-1, 3, memo) {
				out = append(out, V{T: 'K', Form: "n", Cfg: Cfg{Kind: kind, Opt: paren}, Xs: kids})
			}
		}
	}
	// conditions: one node plus an expression of n-1 nodes (a leaf or a stack)
	if n >= 2 {
		for _, paren := range []int{0, fParen} {
			for _, ex := range revTrees(n-1, memo) {
				if ex.T == 'N' || ex.T == 'C' {
					continue
				}
				out = append(out, V{T: 'C', Form: "n", Cfg: Cfg{Opt: paren}, Kw: "k", Op: "c1", Xs: []V{ex}})
			}
		}
	}
	memo[n] = out
	return out
}

// revForests(total, maxKids): all sequences of at most maxKids trees with total nodes in all
func revForests(total, maxKids int, memo map[int][]V) [][]V {
	if total == 0 {
		return [][]V{nil}
	}
	if maxKids == 0 {
		return nil
	}
	var out [][]V
	for first := 1; first <= total; first++ {
		for _, t := range revTrees(first, memo) {
			for _, rest := range revForests(total-first, maxKids-1, memo) {
				out = append(out, append([]V{t}, rest...))
			}
		}
	}
	return out
}

func revEnum() []V {
	revEnumOnce.Do(func() {
		memo := map[int][]V{}
		for n := 0; n <= revEnumSize; n++ {
			for _, kids := range revForests(n, 3, memo) {
				revEnumAll = append(revEnumAll, V{T: 'K', Form: "n", Cfg: Cfg{Kind: 1}, Xs: kids})
			}
		}
	})
	return revEnumAll
}
