package main

// stream `closures` (C14, the five closures other than the push policy): install / replace / remove
// sequences on Stacks of every kind and on Conditions; after every call Valid, String, IsEqual (against
// an equal copy and against a different value), Unmarshal and Err are observed; Marshal is an operation.

import (
	"fmt"
	"math/rand"
	"reflect"
	"strings"

	stackage "github.com/JesseCoretta/go-stackage"
)

func init() {
	streams["closures"] = &stream{gen: genClosures, run: runClosures}
}

func genClosures(r *rand.Rand, id string, tier string) string {
	nextLeaf = 0
	var recv V
	if r.Intn(3) == 0 {
		recv = V{T: 'C', Form: "n", Kw: []string{"k", "", "cn"}[r.Intn(3)], Op: []string{"c1", "c3", "c0", "-"}[r.Intn(4)], Xs: []V{{T: 'i', I: int64(r.Intn(9))}}}
		if r.Intn(4) == 0 {
			// a Stack expression (any form) that may carry an Unmarshaler of its own: Condition.Unmarshal honours it
			recv.Xs = []V{{T: 'K', Form: forms[r.Intn(4)], Cfg: Cfg{Kind: 1 + r.Intn(4), Umf: r.Intn(4)}, Xs: []V{{T: 's', S: "x"}}}}
			if r.Intn(2) == 0 {
				// ... and a validity closure of its own (2 rejects): the Condition's verdict is the Condition's closure's, or the
				// built-in one - never what the Stack it holds thinks of itself
				recv.Xs[0].Cfg.Vpf = 1 + r.Intn(2)
			}
		}
		if r.Intn(5) == 0 {
			// a Condition expression (any form) that may carry an Unmarshaler of its own, holding a value, a Stack with one, or a
			// Condition with one again: Condition.Unmarshal honours it at every level (F43)
			var in V = V{T: 'i', I: 4}
			switch r.Intn(3) {
			case 0:
				in = V{T: 'K', Form: forms[r.Intn(4)], Cfg: Cfg{Kind: 4, Umf: r.Intn(4)}, Xs: []V{{T: 's', S: "y"}}}
			case 1:
				in = V{T: 'C', Form: forms[r.Intn(4)], Cfg: Cfg{Umf: r.Intn(4)}, Kw: "in2", Op: "c2", Xs: []V{{T: 'i', I: 5}}}
			}
			recv.Xs = []V{{T: 'C', Form: forms[r.Intn(4)], Cfg: Cfg{Umf: r.Intn(4)}, Kw: "in", Op: "c3", Xs: []V{in}}}
		}
		if r.Intn(3) == 0 {
			recv.Cfg.Opt |= fParen // a presentation closure's result is returned as it is, options or not
		}
		if r.Intn(4) == 0 {
			recv.Cfg.Opt |= fNoPad
		}
	} else {
		c := Cfg{Kind: kinds(r)}
		if r.Intn(3) == 0 {
			c.Opt |= fFold
		}
		if r.Intn(4) == 0 {
			c.Opt |= fParen
		}
		recv = V{T: 'K', Form: "n", Cfg: c}
		for i, n := 0, r.Intn(4); i < n; i++ {
			recv.Xs = append(recv.Xs, V{T: 's', S: fmt.Sprintf("v%d", i)})
		}
		if r.Intn(3) == 0 {
			// nested nodes with Unmarshalers of their own (a directly nested Stack's is ignored, a nested Condition's and a
			// Condition-held Stack's are honoured, an error ends the walk), between plain elements
			switch r.Intn(4) {
			case 3:
				// a Condition held by a Condition (any forms; F43): its Unmarshaler is honoured, also one level further down
				in := V{T: 'C', Form: forms[r.Intn(4)], Cfg: Cfg{Umf: 1 + r.Intn(3)}, Kw: "in", Op: "c3", Xs: []V{{T: 'i', I: 6}}}
				if r.Intn(2) == 0 {
					in = V{T: 'C', Form: forms[r.Intn(4)], Kw: "mid", Op: "c2", Xs: []V{in}}
				}
				recv.Xs = append(recv.Xs, V{T: 'C', Form: forms[r.Intn(4)], Kw: "nc", Op: "c1", Xs: []V{in}})
			case 0:
				recv.Xs = append(recv.Xs, V{T: 'K', Form: forms[r.Intn(4)], Cfg: Cfg{Kind: 2, Umf: 1 + r.Intn(3)}, Xs: []V{{T: 'i', I: 7}}})
			case 1:
				recv.Xs = append(recv.Xs, V{T: 'C', Form: forms[r.Intn(4)], Cfg: Cfg{Umf: 1 + r.Intn(3)}, Kw: "nk", Op: "c1", Xs: []V{{T: 'i', I: 8}}})
			case 2:
				recv.Xs = append(recv.Xs, V{T: 'C', Form: forms[r.Intn(4)], Kw: "nh", Op: "c1",
					Xs: []V{{T: 'K', Form: forms[r.Intn(4)], Cfg: Cfg{Kind: 4, Umf: 1 + r.Intn(3)}, Xs: []V{{T: 'i', I: 9}}}}})
			}
			recv.Xs = append(recv.Xs, V{T: 's', S: "tail"})
		}
		if r.Intn(4) == 0 {
			// a read-only member: Free of the (writable) holder is the holder's business alone
			recv.Xs = append(recv.Xs, V{T: 'K', Form: []string{"n", "a"}[r.Intn(2)], Cfg: Cfg{Kind: 2, Opt: fRO}, Xs: []V{{T: 'i', I: 1}}})
		}
	}
	var ops []string
	for i, n := 0, 1+r.Intn(7); i < n; i++ {
		switch r.Intn(9) {
		case 0, 1:
			ops = append(ops, fmt.Sprintf("vpol %d", r.Intn(3)))
		case 2, 3:
			ops = append(ops, fmt.Sprintf("rpol %d", r.Intn(3)))
		case 4:
			ops = append(ops, []string{"epol 0", "epol 1", "epol 2", "epol -"}[r.Intn(4)])
		case 5:
			ops = append(ops, []string{"upol 0", "upol 1", "upol -", "upol 2", "upol 3"}[r.Intn(5)])
		case 6:
			if recv.T == 'K' {
				ops = append(ops, []string{"mpol 0", "mpol 1", "mpol 2", "mpol -"}[r.Intn(4)])
			} else {
				ops = append(ops, "clrerr")
			}
		case 7:
			if recv.T == 'K' {
				ops = append(ops, "marshal "+[]string{"A [ s414e44 i1 ]", "A [ s6a756e6b ]", "A [ ]", "A [ s434f4e444954494f4e s6b Oc1 i1 ]",
					// envelopes: one argument that is itself a row, an empty row, an empty row inside an envelope
					"A [ A [ ] ]", "A [ A [ A [ ] ] ]", "A [ A [ s414e44 i1 ] ]", "A [ A [ ] A [ ] ]", "A [ N ]"}[r.Intn(9)])
			} else {
				ops = append(ops, "clrerr")
			}
		case 8:
			// (an error recorded by the user is not a verdict on validity: the closures keep their say)
			// (read-only: installing / removing is refused, but what is installed keeps deciding)
			ops = append(ops, []string{"fold 1", "fold 0", "clrerr", "seterr", "seterr", "ro 1", "ro 0", "ro 0"}[r.Intn(8)])
		}
	}
	if recv.T == 'K' && r.Intn(2) == 0 {
		// finally release the instance: Free must make the handle zero unless it is read-only, whatever the closures say
		if r.Intn(4) == 0 {
			ops = append(ops, "ro 1")
		}
		ops = append(ops, "free")
	}
	return recv.String() + " | " + strings.Join(ops, " ; ")
}

func errTokC(e error) string {
	if e == nil {
		return "e0"
	}
	return "e1:" + errClass(e)
}

func runClosures(payload string) string {
	parts := strings.SplitN(payload, " | ", 2)
	v, _ := parseV(strings.Fields(parts[0]))
	var s stackage.Stack
	var c stackage.Condition
	isStack := v.T == 'K'
	if isStack {
		s = BuildStack(v)
	} else {
		c = BuildCond(v)
	}
	obs := func() string {
		return guard(func() string {
			if isStack {
				twin := BuildStack(v) // an equal copy of the initial content (content never changes except through marshal)
				twinP := BuildStack(v)
				twinP.SetReadOnly(false)
				twinP.SetEqualityPolicy(eqPolicy(2)) // Qp: the argument carries a (rejecting) closure of its own: it is the receiver's that counts
				u, uerr := s.Unmarshal()
				// Qs: compared with itself - an installed equality closure is consulted all the same
				return fmt.Sprintf("V%s S%s Qc%s Qd%s Qs%s Qp%s U%s{%s} R%s L%d", errTokC(s.Valid()), hx(s.String()), errTok(s.IsEqual(twin)), errTok(s.IsEqual(stackage.Basic().Push(99))),
					errTok(s.IsEqual(s)), errTok(s.IsEqual(twinP)), errTokC(uerr), Describe(any(u)), errClass(s.Err()), s.Len())
			}
			twin := BuildCond(v)
			twinP := BuildCond(v)
			twinP.SetReadOnly(false)
			twinP.SetEqualityPolicy(eqPolicy(2))
			u, uerr := c.Unmarshal()
			return fmt.Sprintf("V%s S%s Qc%s Qd%s Qs%s Qp%s U%s{%s} R%s", errTokC(c.Valid()), hx(c.String()), errTok(c.IsEqual(twin)), errTok(c.IsEqual(stackage.Cond("zz", stackage.Ne, 5))),
				errTok(c.IsEqual(c)), errTok(c.IsEqual(twinP)), errTokC(uerr), Describe(any(u)), errClass(c.Err()))
		})
	}
	cl := func(t reflect.Type, tok string) []reflect.Value {
		if tok == "-" {
			return nil // variadic setter called without arguments
		}
		return []reflect.Value{closureFor(t, atoi64(tok))}
	}
	var outs []string
	outs = append(outs, "init "+obs())
	for _, op := range strings.Split(parts[1], " ; ") {
		t := strings.Fields(op)
		if t[0] == "free" {
			err := s.Free()
			outs = append(outs, fmt.Sprintf("free %s Z%s I%s", errTok(err), b01(s.IsZero()), b01(s.IsInit())))
			break
		}
		ret := guard(func() string {
			var recv reflect.Value
			if isStack {
				recv = reflect.ValueOf(s)
			} else {
				recv = reflect.ValueOf(c)
			}
			call := func(name string, tname string, tok string) {
				m := recv.MethodByName(name)
				pt := m.Type().In(0)
				if m.Type().IsVariadic() {
					pt = pt.Elem()
				}
				_ = tname
				m.Call(cl(pt, tok))
			}
			switch t[0] {
			case "vpol":
				call("SetValidityPolicy", "", t[1])
			case "rpol":
				call("SetPresentationPolicy", "", t[1])
			case "epol":
				call("SetEqualityPolicy", "", t[1])
			case "upol":
				call("SetUnmarshaler", "", t[1])
			case "mpol":
				call("SetMarshaler", "", t[1])
			case "fold":
				if isStack {
					s.SetFold(t[1] == "1")
				}
			case "ro":
				if isStack {
					s.SetReadOnly(t[1] == "1")
				} else {
					c.SetReadOnly(t[1] == "1")
				}
			case "clrerr":
				if isStack {
					s.SetErr(nil)
				} else {
					c.SetErr(nil)
				}
			case "seterr":
				if isStack {
					s.SetErr(errOf(7))
				} else {
					c.SetErr(errOf(7))
				}
			case "marshal":
				in, _ := parseV(t[1:])
				return errTokC(s.Marshal(Build(in).([]any)...))
			default:
				panic("bad op")
			}
			return "-"
		})
		outs = append(outs, ret+" "+obs())
	}
	return strings.Join(outs, " ; ")
}
