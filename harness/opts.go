package main

// stream `opts` (C18): option switches, string-valued settings, encapsulation, FIFO latch and log
// levels on Stacks of every kind and on Conditions, with a full configuration dump (dump.go) after
// every call.
//
// case payload:   <receiver literal (K … or C …)> | <op> ; <op> ; …
//
//	st  <opt> <1|0|t>      tri-state setter (true / false / no argument); opt ∈ paren fold nopad lonce neg fwd nnest ro
//	sta <opt> <1|0|t>      the same through the deprecated alias (Paren, Fold, …)
//	fifo <1|0>             SetFIFO
//	id <hex> · cat <hex>   SetID / SetCategory
//	delim <A>              SetDelimiter(any):  A = s<hex> string · r<int> rune · N nil · x another type
//	sym <A>* · syma <A>*   SetSymbol / Symbol
//	enc <E>* · enca <E>*   SetEncap / Encap:   E = s<hex> string · l[<hex>/<hex>…] []string ("l" alone = empty slice) · x another type
//	aux · aux N · aux <id> SetAuxiliary() / (nil) / (auxOf(id))
//	lvl+ <L>* · lvl- <L>*  SetLogLevel / UnsetLogLevel: L = n<hex> name · c<dec> LogLevel constant · i<dec> raw int · x another type
//
// Enumeration mode: the first cases of a run (by case index) enumerate every sequence of tri-state calls
// up to a length bound — quick: length ≤ 2, thorough: length ≤ 3 — over the 8 Stack options and then over the
// 4 options a Condition exposes; the remaining cases are random.

import (
	"fmt"
	"io"
	"log"
	"math/rand"
	"strconv"
	"strings"

	stackage "github.com/JesseCoretta/go-stackage"
)

func init() {
	streams["opts"] = &stream{gen: genOpts, run: runOpts}
}

var stackOpts = []string{"paren", "fold", "nopad", "lonce", "neg", "fwd", "nnest", "ro"}
var condOpts = []string{"paren", "nopad", "nnest", "ro"}
var triArgs = []string{"1", "0", "t"}

// enumCount = number of sequences of length <= maxLen over an alphabet of k symbols
func enumCount(k, maxLen int) int {
	n, p := 0, 1
	for l := 0; l <= maxLen; l++ {
		n += p
		p *= k
	}
	return n
}

// enumSeq returns the idx-th sequence (shortest first) over the tri-state alphabet of the given options
func enumSeq(opts []string, maxLen, idx int) []string {
	k := len(opts) * 3
	l, p := 0, 1
	for idx >= p {
		idx -= p
		p *= k
		l++
	}
	_ = maxLen
	ops := make([]string, l)
	for j := l - 1; j >= 0; j-- {
		sym := idx % k
		idx /= k
		ops[j] = fmt.Sprintf("st %s %s", opts[sym/3], triArgs[sym%3])
	}
	return ops
}

func condLit(c Cfg) V {
	return V{T: 'C', Form: "n", Cfg: c, Kw: "kw", Op: "c1", Xs: []V{{T: 'i', I: 1}}}
}

func caseIndex(id string) int {
	p := strings.Split(id, "-")
	n, _ := strconv.Atoi(p[len(p)-1])
	return n
}

var encPool = []string{"(", ")", "\"", "'", "[", "]", "<", ">", "«", "»", "", "ab", "(", "q", "Q", "é", "É"}
var idPool = []string{"", "x", "ID", "é", "a b", "Random", "_rand", "addr_", "日本"}
var namePool = []string{"none", "calls", "policy", "state", "debug", "error", "trace", "user1", "user2", "user3", "user4", "user5",
	"user6", "user7", "user8", "user9", "user10", "all"}

func pick(r *rand.Rand, xs []string) string { return xs[r.Intn(len(xs))] }

func mixCase(r *rand.Rand, s string) string {
	switch r.Intn(4) {
	case 0:
		return s
	case 1:
		return strings.ToUpper(s)
	}
	b := []byte(s)
	for i := range b {
		if r.Intn(2) == 0 && b[i] >= 'a' && b[i] <= 'z' {
			b[i] -= 32
		}
	}
	return string(b)
}

func genStrArg(r *rand.Rand, pool []string) string {
	switch r.Intn(10) {
	case 0:
		return "N"
	case 1:
		return "x"
	case 2:
		return fmt.Sprintf("r%d", []int{0, 44, 59, 124, 0xe9, 0x65e5, 0x1F600, -1, 0xD800, 0x110000, 1}[r.Intn(11)])
	}
	return "s" + hx(pick(r, pool))
}

func genEncArg(r *rand.Rand) string {
	switch r.Intn(12) {
	case 0:
		return "x"
	case 1:
		return "l" // empty slice
	case 2, 3, 4:
		return "s" + hx(pick(r, encPool))
	case 5:
		return "l" + hx(pick(r, encPool))
	case 6:
		return "l" + hx(pick(r, encPool)) + "/" + hx(pick(r, encPool)) + "/" + hx(pick(r, encPool))
	}
	return "l" + hx(pick(r, encPool)) + "/" + hx(pick(r, encPool))
}

func genLvlArg(r *rand.Rand) string {
	switch r.Intn(16) {
	case 0:
		return "x"
	case 1:
		return "n" + hx([]string{"bogus", "", "user11", "uſer1", "polıcy", "TRACE ", "NONE", "All"}[r.Intn(8)])
	case 2, 3, 4, 5, 6:
		return "n" + hx(mixCase(r, pick(r, namePool)))
	case 7:
		return "c" + []string{"0", "65535"}[r.Intn(2)]
	case 8, 9, 10:
		return fmt.Sprintf("c%d", 1<<uint(r.Intn(16)))
	case 11:
		return fmt.Sprintf("c%d", r.Intn(65536))
	case 12:
		return "i" + []string{"0", "65535", "65536", "-1", "44", "65540", "-65536", "131071", "9223372036854775807", "-9223372036854775808", "32768"}[r.Intn(11)]
	case 13:
		return fmt.Sprintf("i%d", 1<<uint(r.Intn(16)))
	}
	return fmt.Sprintf("i%d", r.Intn(65536))
}

func genOptOp(r *rand.Rand, isCond bool, kind int) string {
	opts := stackOpts
	if isCond {
		opts = condOpts
	}
	for {
		switch k := r.Intn(100); {
		case k < 34:
			o := pick(r, opts)
			if r.Intn(5) == 0 {
				o = "ro"
			}
			verb := "st"
			if r.Intn(4) == 0 && !(isCond && o == "ro") {
				verb = "sta"
			}
			return fmt.Sprintf("%s %s %s", verb, o, pick(r, triArgs))
		case k < 39:
			if isCond {
				continue
			}
			return fmt.Sprintf("fifo %d", r.Intn(2))
		case k < 46:
			return "id " + hx(pick(r, idPool))
		case k < 52:
			return "cat " + hx(pick(r, idPool))
		case k < 60:
			if isCond {
				continue
			}
			return "delim " + genStrArg(r, []string{",", ";", "", "|", " ", "、", ", "})
		case k < 68:
			if isCond {
				continue
			}
			verb := "sym"
			if r.Intn(4) == 0 {
				verb = "syma"
			}
			var as []string
			for i, n := 0, r.Intn(3); i < n; i++ {
				as = append(as, genStrArg(r, []string{"&", "|", "!", "", "&&", "∧", "x"}))
			}
			return strings.TrimSpace(verb + " " + strings.Join(as, " "))
		case k < 82:
			verb := "enc"
			if r.Intn(4) == 0 {
				verb = "enca"
			}
			var as []string
			n := 1 + r.Intn(2)
			if r.Intn(7) == 0 {
				n = 0
			}
			for i := 0; i < n; i++ {
				as = append(as, genEncArg(r))
			}
			return strings.TrimSpace(verb + " " + strings.Join(as, " "))
		case k < 86:
			return strings.TrimSpace("aux " + []string{"", "N", "1", "2", "3", "9", "9"}[r.Intn(7)]) // 9: an empty map of the caller's (kept as it is, like any other)
		case k < 89:
			return "logger " + []string{"d", "o", "0"}[r.Intn(3)]
		default:
			verb := "lvl+"
			if r.Intn(3) == 0 {
				verb = "lvl-"
			}
			var as []string
			for i, n := 0, r.Intn(4); i < n; i++ {
				as = append(as, genLvlArg(r))
			}
			return strings.TrimSpace(verb + " " + strings.Join(as, " "))
		}
	}
}

// a valid starting configuration (everything in it is accepted by the public setters in the order BuildStack applies them)
func genOptCfg(r *rand.Rand, isCond bool) Cfg {
	c := Cfg{}
	if isCond {
		for _, f := range []int{fParen, fNoPad, fNNest} {
			if r.Intn(4) == 0 {
				c.Opt |= f
			}
		}
	} else {
		c.Kind = kinds(r)
		for _, f := range []int{fParen, fFold, fNoPad, fLOnce, fNeg, fFwd, fNNest} {
			if r.Intn(4) == 0 {
				c.Opt |= f
			}
		}
		c.Fifo = r.Intn(4) == 0
		if r.Intn(4) == 0 {
			if c.Kind == 4 {
				c.Ljc = pick(r, []string{",", ";", "|"})
			} else {
				c.Sym = pick(r, []string{"&", "|", "!"})
			}
		}
		if r.Intn(3) == 0 {
			c.Cap = 1 + r.Intn(5)
		}
	}
	if r.Intn(8) == 0 {
		c.Opt |= fRO
	}
	switch r.Intn(6) {
	case 0:
		c.Enc = [][]string{{"\""}}
	case 1:
		c.Enc = [][]string{{"(", ")"}, {"'"}}
	}
	if r.Intn(4) == 0 {
		c.ID = pick(r, idPool)
	}
	if r.Intn(4) == 0 {
		c.Cat = pick(r, idPool)
	}
	if r.Intn(5) == 0 && !isCond {
		c.Mtx = true // the toggle form must not take the lock twice
	}
	if r.Intn(6) == 0 {
		c.Vpf = 1 + r.Intn(2) // a validity policy (2 rejects the instance) has no say in what the options are
	}
	if r.Intn(6) == 0 {
		c.Err = 7 // a recorded error must not stand in the way of any option or getter
	}
	return c
}

func genOpts(r *rand.Rand, id string, tier string) string {
	idx := caseIndex(id)
	maxLen := 2
	if tier == "thorough" {
		maxLen = 3
	}
	nS, nC := enumCount(len(stackOpts)*3, maxLen), enumCount(len(condOpts)*3, maxLen)
	switch {
	case idx < nS:
		k := []int{1, 2, 3, 4, 6}[idx%5]
		return withOps(V{T: 'K', Form: "n", Cfg: Cfg{Kind: k}, Xs: []V{{T: 'i', I: 1}, {T: 'N'}}}, enumSeq(stackOpts, maxLen, idx))
	case idx < nS+nC:
		return withOps(condLit(Cfg{}), enumSeq(condOpts, maxLen, idx-nS))
	}
	nextLeaf = 0
	isCond := r.Intn(4) == 0
	c := genOptCfg(r, isCond)
	var recv V
	if isCond {
		recv = condLit(c)
		switch r.Intn(5) { // Condition.IsFIFO answers for a Stack held as expression
		case 0:
			recv.Xs = []V{{T: 'K', Form: "n", Cfg: Cfg{Kind: kinds(r), Fifo: true}, Xs: []V{{T: 'i', I: 1}}}}
		case 1:
			recv.Xs = []V{{T: 'K', Form: "n", Cfg: Cfg{Kind: kinds(r)}}}
		}
	} else {
		n0 := r.Intn(4)
		if c.Cap != 0 && n0 > c.Cap {
			n0 = c.Cap
		}
		recv = genStackLit(r, c, n0, true)
	}
	maxOps := 12
	if tier == "thorough" {
		maxOps = 40
	}
	var ops []string
	for i, n := 0, 1+r.Intn(maxOps); i < n; i++ {
		ops = append(ops, genOptOp(r, isCond, c.Kind))
	}
	return withOps(recv, ops)
}

func withOps(recv V, ops []string) string {
	if len(ops) == 0 {
		return recv.String()
	}
	return recv.String() + " | " + strings.Join(ops, " ; ")
}

// ---------------------------------------------------------------------------
// running

type foreign struct{ X int } // "another type" for every `any` parameter

func triState(a string) []bool {
	switch a {
	case "1":
		return []bool{true}
	case "0":
		return []bool{false}
	}
	return nil
}

func strArgs(ts []string) []any {
	var as []any
	for _, t := range ts {
		switch t[0] {
		case 's':
			as = append(as, unhx(t[1:]))
		case 'r':
			as = append(as, rune(atoi64(t[1:])))
		case 'N':
			as = append(as, nil)
		default:
			as = append(as, foreign{1})
		}
	}
	return as
}

func encArgs(ts []string) []any {
	var as []any
	for _, t := range ts {
		switch t[0] {
		case 's':
			as = append(as, unhx(t[1:]))
		case 'l':
			sl := []string{}
			if len(t) > 1 {
				for _, h := range strings.Split(t[1:], "/") {
					sl = append(sl, unhx(h))
				}
			}
			as = append(as, sl)
		default:
			as = append(as, foreign{2})
		}
	}
	return as
}

func lvlArgs(ts []string) []any {
	var as []any
	for _, t := range ts {
		switch t[0] {
		case 'n':
			as = append(as, unhx(t[1:]))
		case 'c':
			as = append(as, stackage.LogLevel(atoi64(t[1:])))
		case 'i':
			as = append(as, atoi64(t[1:]))
		default:
			as = append(as, 1.5)
		}
	}
	return as
}

func auxArgs(ts []string) []stackage.Auxiliary {
	if len(ts) == 0 {
		return nil
	}
	if ts[0] == "N" {
		return []stackage.Auxiliary{nil}
	}
	return []stackage.Auxiliary{auxOf(atoi64(ts[0]))}
}

func applyOptStack(s stackage.Stack, t []string) {
	switch t[0] {
	case "st", "sta":
		st, alias := triState(t[2]), t[0] == "sta"
		switch t[1] {
		case "paren":
			if alias {
				s.Paren(st...)
			} else {
				s.SetParen(st...)
			}
		case "fold":
			if alias {
				s.Fold(st...)
			} else {
				s.SetFold(st...)
			}
		case "nopad":
			if alias {
				s.NoPadding(st...)
			} else {
				s.SetNoPadding(st...)
			}
		case "lonce":
			if alias {
				s.LeadOnce(st...)
			} else {
				s.SetLeadOnce(st...)
			}
		case "neg":
			if alias {
				s.NegativeIndices(st...)
			} else {
				s.SetNegativeIndices(st...)
			}
		case "fwd":
			if alias {
				s.ForwardIndices(st...)
			} else {
				s.SetForwardIndices(st...)
			}
		case "nnest":
			if alias {
				s.NoNesting(st...)
			} else {
				s.SetNoNesting(st...)
			}
		case "ro":
			if alias {
				s.ReadOnly(st...)
			} else {
				s.SetReadOnly(st...)
			}
		default:
			panic("bad option " + t[1])
		}
	case "fifo":
		s.SetFIFO(t[1] == "1")
	case "id":
		s.SetID(unhx(t[1]))
	case "cat":
		s.SetCategory(unhx(t[1]))
	case "delim":
		s.SetDelimiter(strArgs(t[1:2])[0])
	case "sym":
		s.SetSymbol(strArgs(t[1:])...)
	case "syma":
		s.Symbol(strArgs(t[1:])...)
	case "enc":
		s.SetEncap(encArgs(t[1:])...)
	case "enca":
		s.Encap(encArgs(t[1:])...)
	case "aux":
		s.SetAuxiliary(auxArgs(t[1:])...)
	case "lvl+":
		s.SetLogLevel(lvlArgs(t[1:])...)
	case "lvl-":
		s.UnsetLogLevel(lvlArgs(t[1:])...)
	case "logger":
		s.SetLogger(loggerArg(t[1]))
	default:
		panic("bad op " + t[0])
	}
}

func applyOptCond(c stackage.Condition, t []string) {
	switch t[0] {
	case "st", "sta":
		st, alias := triState(t[2]), t[0] == "sta"
		switch t[1] {
		case "paren":
			if alias {
				c.Paren(st...)
			} else {
				c.SetParen(st...)
			}
		case "nopad":
			if alias {
				c.NoPadding(st...)
			} else {
				c.SetNoPadding(st...)
			}
		case "nnest":
			if alias {
				c.NoNesting(st...)
			} else {
				c.SetNoNesting(st...)
			}
		case "ro":
			c.SetReadOnly(st...)
		default:
			panic("a Condition has no option " + t[1])
		}
	case "id":
		c.SetID(unhx(t[1]))
	case "cat":
		c.SetCategory(unhx(t[1]))
	case "enc":
		c.SetEncap(encArgs(t[1:])...)
	case "enca":
		c.Encap(encArgs(t[1:])...)
	case "aux":
		c.SetAuxiliary(auxArgs(t[1:])...)
	case "lvl+":
		c.SetLogLevel(lvlArgs(t[1:])...)
	case "lvl-":
		c.UnsetLogLevel(lvlArgs(t[1:])...)
	case "logger":
		c.SetLogger(loggerArg(t[1]))
	default:
		panic("a Condition has no " + t[0])
	}
}

// loggerArg: a logger that writes nowhere (`d`: a *log.Logger on io.Discard; `o`: the string "off"; `0`: the int 0).
// Assigning a logger changes the logger only: every other setting, the log levels included, stays.
func loggerArg(k string) any {
	switch k {
	case "d":
		return log.New(io.Discard, "", 0)
	case "o":
		return "off"
	}
	return 0
}

func runOpts(payload string) string {
	parts := strings.SplitN(payload, " | ", 2)
	v, _ := parseV(strings.Fields(parts[0]))
	var recv any
	var apply func(t []string)
	switch v.T {
	case 'K':
		s := BuildStack(v)
		recv, apply = s, func(t []string) { applyOptStack(s, t) }
	case 'C':
		c := BuildCond(v)
		recv, apply = c, func(t []string) { applyOptCond(c, t) }
	default:
		return "BADCASE"
	}
	// the settings as String() shows them ("... or reflected in String()")
	// ... and the option words of what the receiver holds (a nested Stack / Condition, a Condition's Stack expression): an option
	// switched on the receiver is the receiver's alone
	nestOpts := func(x any) string {
		var out []string
		var one func(e any, deep bool)
		one = func(e any, deep bool) {
			if s, ok := stackage.ConvertStack(e); ok {
				out = append(out, strconv.Itoa(int(stackage.VerifDump(s).Opt)))
				return
			}
			if c, ok := stackage.ConvertCondition(e); ok {
				out = append(out, strconv.Itoa(int(stackage.VerifDump(c).Opt)))
				if deep {
					one(c.Expression(), false)
				}
			}
		}
		if s, ok := x.(stackage.Stack); ok {
			for _, e := range stackage.VerifDump(s).Elems {
				one(e, true)
			}
		} else if c, ok := x.(stackage.Condition); ok {
			one(c.Expression(), false)
		}
		return " NEST:" + strings.Join(out, ",")
	}
	str := func() string {
		return guard(func() string {
			if s, ok := recv.(stackage.Stack); ok {
				return " STR:" + hx(s.String()) + nestOpts(s)
			}
			return " STR:" + hx(recv.(stackage.Condition).String()) + nestOpts(recv)
		})
	}
	outs := []string{"init " + DumpCfg(recv) + str()}
	if len(parts) < 2 || strings.TrimSpace(parts[1]) == "" {
		return strings.Join(outs, " ; ")
	}
	for _, op := range strings.Split(parts[1], " ; ") {
		t := strings.Fields(op)
		ret := guard(func() string { apply(t); return "-" })
		outs = append(outs, ret+" "+DumpCfg(recv)+str())
	}
	return strings.Join(outs, " ; ")
}
