package main

// Exhaustive part of stream `hist` (C01, thorough tier): every history of at most histEnumLen operations over a
// 15-letter alphabet, from each of a few starting stacks (empty / one element / three elements with a nil in the
// middle) x {no capacity, capacity 3} x {LIFO, FIFO}. The first cases of a thorough run (by case index) walk this
// list; the remaining ones are random (genHist).

import (
	"strings"
)

const histEnumLen = 4

var histLetters = []string{
	"push i7", "push N", "push i8 i9", "pop", "ins i5 0", "ins i5 1", "ins i5 9", "rem 0", "rem 1",
	"rep i6 0", "rep i6 1", "swap 0 1", "rev", "reset", "fifo",
}

var histStarts = []string{
	"K n k=4 [ ]", "K n k=1 [ i1 ]", "K n k=2 [ i1 N i3 ]",
	"K n k=4,c=3 [ ]", "K n k=1,c=3 [ i1 ]", "K n k=2,c=3 [ i1 N i3 ]",
	"K n k=3,f=1 [ i1 N i3 ]", "K n k=6,c=3,f=1 [ i1 i2 ]",
}

// histEnumCount = number of (start, history) pairs
func histEnumCount() int {
	n, p := 0, 1
	for l := 1; l <= histEnumLen; l++ {
		p *= len(histLetters)
		n += p
	}
	return n * len(histStarts)
}

// histEnumCase returns the idx-th enumerated case payload
func histEnumCase(idx int) string {
	start := histStarts[idx%len(histStarts)]
	idx /= len(histStarts)
	k := len(histLetters)
	l, p := 1, k
	for idx >= p {
		idx -= p
		l++
		p *= k
	}
	ops := make([]string, l)
	for j := 0; j < l; j++ {
		ops[j] = histLetters[idx%k]
		idx /= k
	}
	return start + " | " + strings.Join(ops, " ; ")
}
