package main

// stream `alias` (C12): a tree in which nested Stacks / Conditions are independently
// native / alias / alias-with-String / pointer-to-alias, observed next to its all-native twin.

import (
	"fmt"
	"math/rand"
	"strings"

	stackage "github.com/JesseCoretta/go-stackage"
)

func init() {
	streams["alias"] = &stream{gen: genAlias, run: runAlias}
}

func eraseV(v V) V {
	out := v
	if v.T == 'K' || v.T == 'C' {
		out.Form = "n"
	}
	out.Xs = nil
	for _, x := range v.Xs {
		out.Xs = append(out.Xs, eraseV(x))
	}
	return out
}

var forms = []string{"n", "a", "as", "p"}

// umfSome: about one nested node in six carries an Unmarshaler (ids 1, 2: distinguishable slices; 3: a slice and an error)
func umfSome(r *rand.Rand) int {
	if r.Intn(6) == 0 {
		return 1 + r.Intn(3)
	}
	return 0
}

// eqfSome: about one nested node in eight carries an EqualityPolicy that insists on a native peer (id 3): a nested
// node's policy is handed the converted instance, so the alias tree and the native tree still compare equal both ways
func eqfSome(r *rand.Rand) int {
	if r.Intn(8) == 0 {
		return 3
	}
	return 0
}

// genAliasCond: a Condition in a random form whose expression is a Stack (any form), a string, or a Condition again
// (any form, cnest further levels - Condition in Condition to depth 3, a Stack possibly below the innermost one); every
// Condition on the way may carry an Unmarshaler. F43: Unmarshal expands a held Condition through the public
// Condition.Unmarshal (its Unmarshaler is consulted, its error ends the walk), whatever its form.
func genAliasCond(r *rand.Rand, depth, cnest int, kw, op string) V {
	var ex V
	switch {
	case (depth > 0 || cnest < 3) && r.Intn(2) == 0:
		d := depth - 1
		if d < 0 {
			d = 0
		}
		ex = genAliasTree(r, d)
	case cnest > 0 && r.Intn(1+cnest) == 0: // outermost: one in four; inside a chain: more often
		nextLeaf++
		ex = genAliasCond(r, depth, cnest-1, []string{"in", "in2", "in3"}[3-cnest], "c3")
	default:
		nextLeaf++
		ex = V{T: 's', S: fmt.Sprintf("v%d", nextLeaf)}
	}
	return V{T: 'C', Form: forms[r.Intn(4)], Cfg: Cfg{Umf: umfSome(r), Eqf: eqfSome(r)}, Kw: kw, Op: op, Xs: []V{ex}}
}

// genAliasTree: a Stack in a random form; nested Stacks, nested Conditions and Condition-held Stacks may carry an
// Unmarshaler (the caller clears the one of the top-level receiver)
func genAliasTree(r *rand.Rand, depth int) V {
	c := Cfg{Kind: []int{1, 2, 3, 4}[r.Intn(4)], Umf: umfSome(r), Eqf: eqfSome(r)}
	if r.Intn(4) == 0 {
		c.Opt |= fParen
	}
	if r.Intn(6) == 0 {
		c.Opt |= fNoPad
	}
	if r.Intn(5) == 0 {
		c.Opt |= fFold // the word as presented is not the kind: a nested NOT is a NOT in any letter case
	}
	if r.Intn(8) == 0 && c.Kind != 4 { // (a LIST takes no symbol)
		c.Sym = []string{"NOT", "not", "&", "AND"}[r.Intn(4)]
	}
	st := V{T: 'K', Form: forms[r.Intn(4)], Cfg: c}
	for i, n := 0, 1+r.Intn(4); i < n; i++ {
		nextLeaf++
		switch {
		case depth > 0 && r.Intn(2) == 0:
			st.Xs = append(st.Xs, genAliasTree(r, depth-1))
		case r.Intn(3) == 0:
			st.Xs = append(st.Xs, genAliasCond(r, depth, 3, fmt.Sprintf("k%d", nextLeaf), "c1"))
		case r.Intn(9) == 0:
			st.Xs = append(st.Xs, V{T: 'N'})
		default:
			st.Xs = append(st.Xs, V{T: 's', S: fmt.Sprintf("v%d", nextLeaf)})
		}
	}
	return st
}

func genAlias(r *rand.Rand, id string, tier string) string {
	nextLeaf = 0
	d := 2
	if tier == "thorough" {
		d = 4
	}
	t := genAliasTree(r, 1+r.Intn(d))
	t.Form = "n"
	t.Cfg.Umf = 0 // never on the receiver itself here (stream closures does that)
	t.Cfg.Eqf = 0
	return t.String()
}

var aliasPaths = [][]int{{0}, {1}, {-1}, {0, 0}, {1, 0}, {0, 1}, {2, 0}, {1, 1, 0}, {0, 0, 0}}

func condLens(s stackage.Stack) string {
	var out []string
	for i := 0; i < s.Len(); i++ {
		x, _ := s.Index(i)
		if c, ok := stackage.ConvertCondition(x); ok {
			out = append(out, fmt.Sprintf("%d%s", c.Len(), b01(c.IsNesting())))
		}
	}
	return strings.Join(out, ",")
}

func obsAliasTree(s stackage.Stack) string {
	return guard(func() string {
		u, uerr := s.Unmarshal()
		var tr []string
		for _, p := range aliasPaths {
			x, ok := s.Traverse(p...)
			tr = append(tr, eraseV(Describe(x)).String()+":"+b01(ok))
		}
		nn := stackage.List().SetNoNesting(true)
		for i := 0; i < s.Len(); i++ {
			x, _ := s.Index(i)
			nn.Push(x)
		}
		dst := stackage.List()
		okx := s.Transfer(dst)
		return fmt.Sprintf("S%s U{%s}%s G%s T{%s} L%s P%d X%s%d", hx(s.String()), eraseV(Describe(any(u))), errTokC(uerr), b01(s.IsNesting()),
			strings.Join(tr, " | "), condLens(s), nn.Len(), b01(okx), dst.Len())
	})
}

// namesakes: values of unrelated local types that print exactly like the harness's alias types ("main.AStack", ...).
// Whether a value is an alias is a matter of its type, not of its type's name: feeding the namesakes to the converters
// (before and after the real aliases) must change nothing.
func namesakes() []any {
	type AStack struct{ X int }
	type SStack struct{ X int }
	type ACond struct{ X string }
	type SCond struct{ X string }
	// ... and unrelated types that merely EMBED an initialised Stack / Condition next to other fields: not aliases either
	type HasStack struct {
		stackage.Stack
		Name string
	}
	type HasCond struct {
		stackage.Condition
		Name string
	}
	return []any{AStack{1}, &AStack{2}, SStack{3}, ACond{"x"}, &ACond{"y"}, SCond{"z"},
		HasStack{stackage.And().Push(1), "n"}, &HasStack{stackage.Or().Push(2), "m"}, HasCond{stackage.Cond("k", stackage.Eq, 1), "c"}, &HasCond{stackage.Cond("k", stackage.Ne, 2), "d"}}
}

func feedNamesakes() string {
	return guard(func() string {
		out := ""
		for _, x := range namesakes() {
			_, s1 := stackage.ConvertStack(x)
			_, c1 := stackage.ConvertCondition(x)
			out += b01(s1) + b01(c1)
		}
		if strings.Contains(out, "1") {
			return "NAMESAKE-CONVERTED:" + out
		}
		return ""
	})
}

func runAlias(payload string) string {
	if bad := feedNamesakes(); bad != "" {
		return bad
	}
	defer feedNamesakes()
	v, _ := parseV(strings.Fields(payload))
	a := BuildStack(v)
	n := BuildStack(eraseV(v))
	q := guard(func() string { return errTok(a.IsEqual(n)) + errTok(n.IsEqual(a)) })
	// Convert* on each element
	var cv []string
	for i := 0; i < a.Len(); i++ {
		x, _ := a.Index(i)
		_, s1 := stackage.ConvertStack(x)
		_, c1 := stackage.ConvertCondition(x)
		cv = append(cv, b01(s1)+b01(c1))
	}
	oa, on := obsAliasTree(a), obsAliasTree(n)
	// Defrag must treat the alias tree like the native one (whatever it does to either)
	a.Defrag()
	n.Defrag()
	da, dn := eraseV(Describe(a)).String(), eraseV(Describe(n)).String()
	return fmt.Sprintf("A{%s} N{%s} Q%s V%s D%s", oa, on, q, strings.Join(cv, ","), b01(da == dn))
}
