package main

// stream `sched` (C10): a cooperative deterministic scheduler on top of
// stackage.VerifHook. Every goroutine parks at "lock.want" (inside stack.lock(),
// just before mutex.Lock()) until the scheduler grants it a turn; exactly one
// goroutine runs at any time, so a run is a deterministic function of the
// schedule = the list of thread numbers granted, one per turn.
//
//	payload:  <stack literal> | <prog 0> / <prog 1> / ... | <schedule>
//	observed: T0 <ret> <ret> ; T1 <ret> ; F L<n> [ elems ] I<init> ; W<0|1> D<0|1>
//
// W1: the content was seen to change only between "lock.held" and "lock.released";
// D1: a granted goroutine neither parked nor finished within the watchdog time.
//
// `harness stress` is the free-running counterpart (16 goroutines, no scheduler),
// meant to be built with -race.

import (
	"flag"
	"fmt"
	"math/rand"
	"os"
	"sort"
	"strconv"
	"strings"
	"sync"
	"sync/atomic"
	"time"

	stackage "github.com/JesseCoretta/go-stackage"
)

var commands = map[string]func(args []string){}

func init() {
	streams["sched"] = &stream{gen: genSched, run: runSched}
	commands["stress"] = stressMain
	commands["roprobe"] = roProbeMain
	if ms, err := strconv.Atoi(os.Getenv("VERIF_WATCHDOG_MS")); err == nil && ms > 0 {
		watchdog = time.Duration(ms) * time.Millisecond
	}
}

// ---------------------------------------------------------------------------
// running one case under the scheduler

type schedEvt struct {
	t        int
	finished bool
}

type schedCase struct {
	s        stackage.Stack
	sid      uintptr
	grant    []chan struct{}
	events   chan schedEvt
	cur      int
	lastSnap string
	held     bool
	wOK      bool
}

var (
	schedMu  sync.Mutex // guards activeCase (stale goroutines of a deadlocked case may still call the hook)
	active   *schedCase
	watchdog = 400 * time.Millisecond // a turn takes microseconds: exactly one goroutine runs at a time
)

func snapContent(s stackage.Stack) (out string) {
	defer func() {
		if recover() != nil {
			out = "BROKEN"
		}
	}()
	d := stackage.VerifDump(s)
	if !d.Init {
		return "BROKEN"
	}
	var p []string
	for _, e := range d.Elems {
		p = append(p, Short(e))
	}
	return strings.Join(p, " ")
}

func schedHook(point string, id uintptr) {
	schedMu.Lock()
	c := active
	schedMu.Unlock()
	if c == nil || id != c.sid {
		return
	}
	switch point {
	case "lock.want":
		t := c.cur
		c.events <- schedEvt{t: t}
		<-c.grant[t]
	case "lock.held":
		if snap := snapContent(c.s); snap != c.lastSnap {
			c.wOK = false // somebody wrote while nobody held the lock
			c.lastSnap = snap
		}
		c.held = true
	case "lock.released":
		c.lastSnap = snapContent(c.s)
		c.held = false
	}
}

func finalObs(s stackage.Stack) string {
	return guard(func() string {
		n := s.Len()
		var p []string
		for i := 0; i < n; i++ {
			v, _ := s.Index(i)
			p = append(p, Short(v))
		}
		el := "[ ]"
		if len(p) > 0 {
			el = "[ " + strings.Join(p, " ") + " ]"
		}
		return fmt.Sprintf("F L%d %s I%s", n, el, b01(s.IsInit()))
	})
}

func runSched(payload string) string {
	parts := strings.Split(payload, " | ")
	if len(parts) != 3 {
		return "BADCASE"
	}
	v, _ := parseV(strings.Fields(parts[0]))
	s := BuildStack(v)
	var progs [][]string
	for _, p := range strings.Split(parts[1], " / ") {
		var ops []string
		for _, o := range strings.Split(p, " ; ") {
			if strings.TrimSpace(o) != "" {
				ops = append(ops, strings.TrimSpace(o))
			}
		}
		progs = append(progs, ops)
	}
	var sched []int
	for _, f := range strings.Fields(parts[2]) {
		sched = append(sched, atoi64(f))
	}
	n := len(progs)
	c := &schedCase{s: s, sid: stackage.VerifDump(s).SelfPtr, events: make(chan schedEvt, n+1), wOK: true}
	c.lastSnap = snapContent(s)
	for i := 0; i < n; i++ {
		c.grant = append(c.grant, make(chan struct{}))
	}
	schedMu.Lock()
	active = c
	schedMu.Unlock()
	stackage.VerifHook = schedHook
	defer func() {
		schedMu.Lock()
		active = nil
		schedMu.Unlock()
	}()

	results := make([][]string, n)
	for t := 0; t < n; t++ {
		go func(t int) {
			<-c.grant[t]
			for _, op := range progs[t] {
				res := applyOp(s, op) // recovers a panic as the token PANIC
				results[t] = append(results[t], res)
				if res == "PANIC" {
					break
				}
			}
			c.events <- schedEvt{t: t, finished: true}
		}(t)
	}
	finished := make([]bool, n)
	deadlock := false
	turn := func(t int) {
		if deadlock || t < 0 || t >= n || finished[t] {
			return
		}
		c.cur = t
		c.grant[t] <- struct{}{}
		select {
		case e := <-c.events:
			if e.finished {
				finished[e.t] = true
			}
		case <-time.After(watchdog):
			deadlock = true
		}
	}
	for _, t := range sched {
		turn(t)
	}
	for t := 0; t < n; t++ { // drain: whatever the schedule left unfinished, in thread order
		for k := 0; k < 8 && !finished[t]; k++ {
			turn(t)
		}
	}
	if !deadlock && !c.held {
		if snap := snapContent(s); snap != c.lastSnap {
			c.wOK = false
		}
	}
	var out []string
	for t := 0; t < n; t++ {
		rs := results[t]
		if deadlock && !finished[t] {
			rs = append(append([]string{}, rs...), "TIMEOUT")
		}
		out = append(out, strings.TrimSpace(fmt.Sprintf("T%d %s", t, strings.Join(rs, " "))))
	}
	fin := "F DEADLOCK"
	if !deadlock {
		fin = finalObs(s)
	}
	out = append(out, fin, fmt.Sprintf("W%s D%s", b01(c.wOK), b01(deadlock)))
	return strings.Join(out, " ; ")
}

// ---------------------------------------------------------------------------
// generation: configurations aimed at the validation boundaries (emptiness,
// capacity, index range) and, per configuration, all schedules or a sample

var schedQueue []string

// permutations of a multiset of thread numbers (counts[t] turns for thread t)
func multisetPerms(counts []int, limit int) (res [][]int, complete bool) {
	total := 0
	for _, c := range counts {
		total += c
	}
	cur := make([]int, 0, total)
	complete = true
	var rec func()
	rec = func() {
		if len(res) >= limit {
			complete = false
			return
		}
		if len(cur) == total {
			res = append(res, append([]int{}, cur...))
			return
		}
		for t := range counts {
			if counts[t] > 0 {
				counts[t]--
				cur = append(cur, t)
				rec()
				cur = cur[:len(cur)-1]
				counts[t]++
			}
		}
	}
	rec()
	return
}

func genSchedOp(r *rand.Rand, n int, next *int) string {
	val := func() string {
		*next++
		if r.Intn(12) == 0 {
			return "N"
		}
		return fmt.Sprintf("i%d", *next)
	}
	idx := func() int { return r.Intn(n+3) - 1 } // -1 .. n+1
	switch r.Intn(16) {
	case 0, 1, 2, 3:
		return "pop"
	case 4, 5:
		if r.Intn(2) == 0 {
			return "push " + val() + " " + val()
		}
		return "push " + val()
	case 6, 7, 8:
		return fmt.Sprintf("ins %s %d", val(), idx())
	case 9, 10:
		return fmt.Sprintf("rem %d", idx())
	case 11:
		return fmt.Sprintf("rep %s %d", val(), idx())
	case 12, 13:
		return fmt.Sprintf("swap %d %d", idx(), idx())
	case 14:
		return "rev"
	}
	if r.Intn(2) == 0 {
		return "reset"
	}
	return "rev"
}

func genSched(r *rand.Rand, id string, tier string) string {
	if len(schedQueue) > 0 {
		p := schedQueue[0]
		schedQueue = schedQueue[1:]
		return p
	}
	n0 := r.Intn(4) // length 0..3
	c := Cfg{Kind: kinds(r), Mtx: true, Fifo: r.Intn(2) == 0}
	if r.Intn(2) == 0 { // with capacity: at, or just above, the current length
		c.Cap = n0 + r.Intn(3)
		if c.Cap == 0 {
			c.Cap = 1
		}
	}
	if r.Intn(4) == 0 {
		c.Ppf = []int{4, 4, 1, 3}[r.Intn(4)] // a push policy: Push must stay one atomic call on that path too
	}
	if r.Intn(6) == 0 {
		c.Opt |= fNeg
	}
	if r.Intn(6) == 0 {
		c.Opt |= fFwd
	}
	st := V{T: 'K', Form: "n", Cfg: c}
	next := 0
	for i := 0; i < n0; i++ {
		next++
		if r.Intn(10) == 0 {
			st.Xs = append(st.Xs, V{T: 'N'})
		} else {
			st.Xs = append(st.Xs, V{T: 'i', I: int64(next)})
		}
	}
	nthreads := 2 + r.Intn(2)
	maxOps := 3
	if tier != "thorough" && nthreads == 3 {
		maxOps = 2
	}
	var progs []string
	var counts []int
	for t := 0; t < nthreads; t++ {
		k := 1 + r.Intn(maxOps)
		var ops []string
		for j := 0; j < k; j++ {
			ops = append(ops, genSchedOp(r, n0, &next))
		}
		progs = append(progs, strings.Join(ops, " ; "))
		counts = append(counts, k+1) // one turn to reach the first lock(), one per critical section
	}
	limit, sample := 60, 40
	if tier == "thorough" {
		limit, sample = 2000, 400
	}
	perms, complete := multisetPerms(counts, limit)
	if !complete { // too many: sample random shuffles instead
		var base []int
		for t, k := range counts {
			for j := 0; j < k; j++ {
				base = append(base, t)
			}
		}
		perms = perms[:0]
		seen := map[string]bool{}
		for len(perms) < sample {
			p := append([]int{}, base...)
			r.Shuffle(len(p), func(i, j int) { p[i], p[j] = p[j], p[i] })
			key := fmt.Sprint(p)
			if !seen[key] {
				seen[key] = true
				perms = append(perms, p)
			}
		}
	}
	head := st.String() + " | " + strings.Join(progs, " / ") + " | "
	for _, p := range perms {
		var f []string
		for _, t := range p {
			f = append(f, fmt.Sprint(t))
		}
		schedQueue = append(schedQueue, head+strings.Join(f, " "))
	}
	p := schedQueue[0]
	schedQueue = schedQueue[1:]
	return p
}

// ---------------------------------------------------------------------------
// roprobe (C09): once SetReadOnly(true) has RETURNED, the instance does not change any more - also when the call was made
// while another goroutine's Push was in the middle of its critical section (inside its PushPolicy, holding the mutex): on a
// mutex-enabled stack the switch waits its turn like any other writer.
func roProbeMain(args []string) {
	fs := flag.NewFlagSet("roprobe", flag.ExitOnError)
	rounds := fs.Int("rounds", 20, "")
	fs.Parse(args)
	stackage.VerifHook = nil
	bad := 0
	for round := 0; round < *rounds; round++ {
		s := newStack([]int{1, 2, 3, 4, 6}[round%5], 0)
		s.SetMutex()
		if round%2 == 1 {
			s.SetFIFO(true)
		}
		s.Push("seed")
		gate, entered := make(chan struct{}), make(chan struct{})
		var once sync.Once
		s.SetPushPolicy(func(x ...any) error {
			once.Do(func() { close(entered) })
			<-gate
			return nil
		})
		pushed, switched := make(chan struct{}), make(chan struct{})
		go func() { defer close(pushed); defer func() { recover() }(); s.Push(round) }()
		select {
		case <-entered:
		case <-time.After(5 * time.Second):
			fmt.Printf("ROPROBE-FAIL round=%d the PushPolicy was never consulted\n", round)
			bad++
			close(gate)
			continue
		}
		lenAtReturn := -1
		go func() {
			defer close(switched)
			defer func() { recover() }()
			s.SetReadOnly(true)
			lenAtReturn = int(stackage.VerifDump(s).RawLen)
		}()
		select {
		case <-switched: // returned while the Push is still inside its critical section
		case <-time.After(30 * time.Millisecond): // waiting for the lock, as a writer should
		}
		close(gate)
		for _, c := range []chan struct{}{pushed, switched} {
			select {
			case <-c:
			case <-time.After(5 * time.Second):
				fmt.Printf("ROPROBE-FAIL round=%d DEADLOCK: Push / SetReadOnly did not return\n", round)
				bad++
			}
		}
		if final := int(stackage.VerifDump(s).RawLen); lenAtReturn >= 0 && final != lenAtReturn {
			fmt.Printf("ROPROBE-FAIL round=%d SetReadOnly(true) returned with %d slots, the read-only instance then grew to %d\n", round, lenAtReturn, final)
			bad++
		}
		if !s.IsReadOnly() {
			fmt.Printf("ROPROBE-FAIL round=%d not read-only after SetReadOnly(true)\n", round)
			bad++
		}
	}
	fmt.Printf("ROPROBE-DONE rounds=%d failures=%d\n", *rounds, bad)
	if bad > 0 {
		os.Exit(1)
	}
}

// free-running stress: 16 goroutines, one mutex-enabled stack, invariants afterwards

func stressMain(args []string) {
	fs := flag.NewFlagSet("stress", flag.ExitOnError)
	seed := fs.Int64("seed", 1, "")
	rounds := fs.Int("rounds", 20, "")
	opsPer := fs.Int("ops", 400, "operations per goroutine and round")
	workers := fs.Int("workers", 16, "")
	togglesOnly := fs.Bool("toggles", false, "only the option-toggle rounds (C18)")
	fs.Parse(args)
	stackage.VerifHook = nil
	bad := 0
	for round := 0; round < *rounds; round++ {
		stuck := false
		tops := *opsPer
		if !*togglesOnly && tops > 200 {
			tops = 200 // (next to the content rounds a short inversion round is enough: C18's own step runs the long ones)
		}
		for _, msg := range stressToggles(*seed*1000+int64(round), *workers, tops) {
			fmt.Printf("STRESS-FAIL round=%d seed=%d %s\n", round, *seed, msg)
			bad++
			stuck = stuck || strings.HasPrefix(msg, "DEADLOCK")
		}
		if *togglesOnly {
			if stuck {
				break
			}
			continue
		}
		for _, msg := range stressRound(*seed*1000+int64(round), *workers, *opsPer, round%2 == 1) {
			fmt.Printf("STRESS-FAIL round=%d seed=%d %s\n", round, *seed, msg)
			bad++
			stuck = stuck || strings.HasPrefix(msg, "DEADLOCK")
		}
		if stuck { // the stuck goroutines stay behind: no point in going on
			break
		}
		for _, msg := range stressFloor(*seed*1000+int64(round), *workers, *opsPer, round%2 == 0, []int{3, 64, 1, 700}[round%4]) {
			fmt.Printf("STRESS-FAIL round=%d seed=%d %s\n", round, *seed, msg)
			bad++
		}
	}
	fmt.Printf("STRESS-DONE rounds=%d workers=%d ops=%d failures=%d\n", *rounds, *workers, *opsPer, bad)
	if bad > 0 {
		os.Exit(1)
	}
}

// stressFloor: "the values they return match that sequential execution". The stack starts with `floor` elements and every worker
// alternates Push and Pop, its own Push first: in every sequential order consistent with the workers' own orders the stack holds
// at least floor+1 elements (all non-nil) whenever a Pop takes place, so every Pop answers (value, true); nothing is lost either:
// afterwards exactly `floor` elements remain.
func stressFloor(seed int64, workers, opsPer int, fifo bool, floor int) (fails []string) {
	s := newStack(4, 0)
	s.SetMutex()
	if fifo {
		s.SetFIFO(true)
	}
	for i := 0; i < floor; i++ {
		s.Push(-1 - i)
	}
	var ctr, refused int64
	var panics int32
	var wg sync.WaitGroup
	done := make(chan struct{})
	for w := 0; w < workers; w++ {
		wg.Add(1)
		go func(w int) {
			defer wg.Done()
			defer func() {
				if recover() != nil {
					atomic.AddInt32(&panics, 1)
				}
			}()
			for k := 0; k < opsPer; k++ {
				s.Push(int(atomic.AddInt64(&ctr, 1)))
				if k%7 == 3 {
					s.Reverse()
				}
				if _, ok := s.Pop(); !ok {
					atomic.AddInt64(&refused, 1)
				}
			}
		}(w)
	}
	go func() { wg.Wait(); close(done) }()
	select {
	case <-done:
	case <-time.After(20 * time.Second):
		return []string{"DEADLOCK: floor workers did not finish within 20s"}
	}
	if panics > 0 {
		fails = append(fails, fmt.Sprintf("PANIC in %d workers", panics))
	}
	if refused > 0 {
		fails = append(fails, fmt.Sprintf("Pop answered (nil,false) %d times of %d on a stack (fifo=%v) that holds at least %d elements in every sequential order",
			refused, workers*opsPer, fifo, floor+1))
	}
	if n := s.Len(); n != floor+int(refused) {
		fails = append(fails, fmt.Sprintf("Len %d afterwards, expected %d (floor) + %d (refused pops)", n, floor, refused))
	}
	return
}

// stressToggles: an option called without an argument is inverted - every time. On a mutex-enabled stack, whatever the
// order the calls of 16 goroutines take effect in, an option inverted an even number of times stands where it stood and one
// inverted an odd number of times stands opposite; the other options and the content are not involved.
func stressToggles(seed int64, workers, opsPer int) (fails []string) {
	r := rand.New(rand.NewSource(seed))
	s := newStack(kinds(r), 0)
	s.SetMutex()
	s.Push(1, "a", nil, 2)
	flags := []int{fParen, fFold, fNoPad, fLOnce, fNeg, fFwd, fNNest}
	toggle := func(f int, alias bool) {
		switch f {
		case fParen:
			if alias {
				s.Paren()
			} else {
				s.SetParen()
			}
		case fFold:
			if alias {
				s.Fold()
			} else {
				s.SetFold()
			}
		case fNoPad:
			if alias {
				s.NoPadding()
			} else {
				s.SetNoPadding()
			}
		case fLOnce:
			if alias {
				s.LeadOnce()
			} else {
				s.SetLeadOnce()
			}
		case fNeg:
			if alias {
				s.NegativeIndices()
			} else {
				s.SetNegativeIndices()
			}
		case fFwd:
			if alias {
				s.ForwardIndices()
			} else {
				s.SetForwardIndices()
			}
		case fNNest:
			if alias {
				s.NoNesting()
			} else {
				s.SetNoNesting()
			}
		}
	}
	for _, f := range flags {
		if r.Intn(2) == 0 {
			toggle(f, false)
		}
	}
	opt0 := int(stackage.VerifDump(s).Opt)
	// two or three options only: the calls on one option must meet
	hot := []int{flags[r.Intn(len(flags))], flags[r.Intn(len(flags))], flags[r.Intn(len(flags))]}
	plans := make([][]int, workers)
	want := opt0
	for w := range plans {
		for k := 0; k < opsPer; k++ {
			f := hot[r.Intn(len(hot))]
			plans[w] = append(plans[w], f)
			want ^= f
		}
	}
	var panics int32
	var wg sync.WaitGroup
	done := make(chan struct{})
	for w := 0; w < workers; w++ {
		wg.Add(1)
		go func(w int) {
			defer wg.Done()
			defer func() {
				if recover() != nil {
					atomic.AddInt32(&panics, 1)
				}
			}()
			for k, f := range plans[w] {
				toggle(f, (k+w)%3 == 0)
			}
		}(w)
	}
	go func() { wg.Wait(); close(done) }()
	select {
	case <-done:
	case <-time.After(20 * time.Second):
		return []string{"DEADLOCK: toggle workers did not finish within 20s"}
	}
	if panics > 0 {
		fails = append(fails, fmt.Sprintf("PANIC in %d workers", panics))
	}
	if got := int(stackage.VerifDump(s).Opt); got != want {
		fails = append(fails, fmt.Sprintf("option word %d after %d inversions from %d goroutines (started at %d), expected %d", got, workers*opsPer, workers, opt0, want))
	}
	if n := s.Len(); n != 4 {
		fails = append(fails, fmt.Sprintf("Len %d after option inversions only, expected 4", n))
	}
	return
}

// stressRound: every value pushed or inserted is unique. Without Replace/Reset nothing may vanish:
// afterwards each value that went in is either still there exactly once or was handed out exactly once
// by Pop/Remove; nothing else is there or was handed out; with a capacity, Len never exceeds it.
func stressRound(seed int64, workers, opsPer int, withCap bool) (fails []string) {
	capacity := 0
	if withCap {
		capacity = 8
	}
	s := newStack(4, capacity)
	s.SetMutex()
	if seed%3 == 0 {
		s.SetFIFO(true)
	}
	var ctr int64
	type rec struct{ in, out []int }
	recs := make([]rec, workers)
	var panics int32
	var wg sync.WaitGroup
	done := make(chan struct{})
	for w := 0; w < workers; w++ {
		wg.Add(1)
		go func(w int) {
			defer wg.Done()
			defer func() {
				if recover() != nil {
					atomic.AddInt32(&panics, 1)
				}
			}()
			r := rand.New(rand.NewSource(seed*131 + int64(w)))
			for k := 0; k < opsPer; k++ {
				if seed%4 == 2 && r.Intn(16) == 0 {
					// a worker that "makes sure" the mutex is on: enabling it again changes nothing,
					// in particular it does not swap the lock under the goroutine holding it
					s.SetMutex()
				}
				switch r.Intn(10) {
				case 0, 1, 2:
					if withCap { // Push does not say whether the value was stored: use Insert, which does
						v := int(atomic.AddInt64(&ctr, 1))
						if s.Insert(v, r.Intn(10)) {
							recs[w].in = append(recs[w].in, v)
						}
					} else {
						v := int(atomic.AddInt64(&ctr, 1))
						s.Push(v)
						recs[w].in = append(recs[w].in, v)
					}
				case 3, 4, 5:
					if x, ok := s.Pop(); ok {
						recs[w].out = append(recs[w].out, x.(int))
					}
				case 6:
					v := int(atomic.AddInt64(&ctr, 1))
					if s.Insert(v, r.Intn(6)) {
						recs[w].in = append(recs[w].in, v)
					}
				case 7:
					if x, ok := s.Remove(r.Intn(6)); ok {
						recs[w].out = append(recs[w].out, x.(int))
					}
				case 8:
					s.Swap(r.Intn(4), r.Intn(4))
				case 9:
					s.Reverse()
				}
			}
		}(w)
	}
	go func() { wg.Wait(); close(done) }()
	select {
	case <-done:
	case <-time.After(10 * time.Second):
		return []string{"DEADLOCK: workers did not finish within 10s"}
	}
	if panics > 0 {
		fails = append(fails, fmt.Sprintf("PANIC in %d workers", panics))
	}
	final := guard(func() string {
		if !s.IsInit() {
			return "NOTINIT"
		}
		return "ok"
	})
	if final != "ok" {
		return append(fails, "stack unusable afterwards: "+final)
	}
	in, out := map[int]int{}, map[int]int{}
	for _, rc := range recs {
		for _, v := range rc.in {
			in[v]++
		}
		for _, v := range rc.out {
			out[v]++
		}
	}
	left := map[int]int{}
	n := s.Len()
	for i := 0; i < n; i++ {
		v, _ := s.Index(i)
		iv, isInt := v.(int)
		if !isInt {
			fails = append(fails, fmt.Sprintf("foreign element %s at %d", Short(v), i))
			continue
		}
		left[iv]++
	}
	if withCap && n > capacity {
		fails = append(fails, fmt.Sprintf("capacity exceeded: Len %d > Cap %d", n, capacity))
	}
	var keys []int
	for v := range in {
		keys = append(keys, v)
	}
	sort.Ints(keys)
	for _, v := range keys {
		if out[v]+left[v] != 1 {
			fails = append(fails, fmt.Sprintf("value %d: handed out %d times, still present %d times", v, out[v], left[v]))
			if len(fails) > 5 {
				return
			}
		}
	}
	for v, k := range out {
		if in[v] == 0 {
			fails = append(fails, fmt.Sprintf("fabricated value %d handed out %d times", v, k))
		}
	}
	for v, k := range left {
		if in[v] == 0 {
			fails = append(fails, fmt.Sprintf("fabricated value %d present %d times", v, k))
		}
	}
	return
}
