module verif/harness

go 1.20

require github.com/JesseCoretta/go-stackage v0.0.0

replace github.com/JesseCoretta/go-stackage => /repo
