package main

// streams `roundtrip` (C04) and `anytrees` (C16)

import (
	"fmt"
	"math/rand"
	"reflect"
	"strings"

	stackage "github.com/JesseCoretta/go-stackage"
)

func init() {
	streams["roundtrip"] = &stream{gen: genRoundtrip, run: runRoundtrip}
	streams["anytrees"] = &stream{gen: genAnyTrees, run: runAnyTrees}
}

func genPrim(r *rand.Rand) V {
	switch r.Intn(8) {
	case 0:
		return V{T: 'N'}
	case 1:
		return V{T: 'b', B: r.Intn(2) == 0}
	case 2:
		return V{T: 'n', Ty: 1, S: []string{"1.5", "-0.25"}[r.Intn(2)]}
	case 3:
		return V{T: 's', S: []string{"AND", "list", "CONDITION", "x", "é", ""}[r.Intn(6)]}
	case 4:
		return V{T: 's', S: fmt.Sprintf("v%d", r.Intn(30))}
	default:
		return V{T: 'i', I: int64(r.Intn(100))}
	}
}

func genRTCond(r *rand.Rand, depth int) V { return genRTCondN(r, depth, 3, "n") }

// genRTCondN: a Condition in the given form whose expression is a primitive, a Stack, or a Condition again (cnest
// further levels: Condition in Condition to depth 3, every inner one independently native / alias / alias with String /
// pointer; a Stack may sit below an inner Condition even at tree depth 0). F43: Unmarshal expands the inner Condition,
// Marshal rebuilds it.
func genRTCondN(r *rand.Rand, depth, cnest int, form string) V {
	op := []string{"c1", "c2", "c3", "c4", "c5", "c6", fmt.Sprintf("u1:%s:%s", hx("~="), hx("approx")), "-"}[r.Intn(8)] // "-": built step by step, never given an operator
	var ex V
	switch {
	case (depth > 0 || cnest < 3) && r.Intn(3) == 0:
		d := depth - 1
		if d < 0 {
			d = 0
		}
		ex = genRTStack(r, d)
	case cnest > 0 && r.Intn(2+cnest/3) == 0: // outermost: one in three; inside a chain: one in two
		ex = genRTCondN(r, depth, cnest-1, forms[r.Intn(4)])
		ex.Kw = []string{"in", "in2", "in3"}[3-cnest] // the level is legible in the replay
	default:
		ex = genPrim(r)
		for ex.T == 'N' || (ex.T == 's' && ex.S == "") {
			ex = genPrim(r)
		}
	}
	return V{T: 'C', Form: form, Kw: []string{"cn", "mail", "k w"}[r.Intn(3)], Op: op, Xs: []V{ex}}
}

func genRTStack(r *rand.Rand, depth int) V {
	c := Cfg{Kind: kinds(r)}
	if r.Intn(5) == 0 {
		c.Opt |= fFold
	}
	if r.Intn(6) == 0 {
		c.Opt |= fParen
	}
	if r.Intn(6) == 0 {
		c.Fifo = true // the order of removal is not part of what Unmarshal carries, nor a difference for IsEqual
	}
	if r.Intn(8) == 0 {
		c.Opt |= []int{fNoPad, fLOnce, fNeg, fFwd}[r.Intn(4)] // options: the same
	}
	if r.Intn(6) == 0 && c.Kind != 4 {
		c.Sym = []string{"&&", "||", "!", "plus"}[r.Intn(4)] // presentation only: Unmarshal still emits the kind label
	}
	st := V{T: 'K', Form: "n", Cfg: c}
	for i, n := 0, r.Intn(5); i < n; i++ {
		switch {
		case depth > 0 && r.Intn(3) == 0:
			st.Xs = append(st.Xs, genRTStack(r, depth-1))
		case r.Intn(4) == 0:
			st.Xs = append(st.Xs, genRTCond(r, depth))
		default:
			st.Xs = append(st.Xs, genPrim(r))
		}
	}
	if r.Intn(6) == 0 {
		// the same sub-stack once more, inside a sibling: built as ONE shared instance by the runner
		for _, x := range st.Xs {
			if x.T == 'K' {
				st.Xs = append(st.Xs, V{T: 'K', Form: "n", Cfg: Cfg{Kind: 3}, Xs: []V{x, {T: 'i', I: 5}}})
				break
			}
		}
	}
	if r.Intn(8) == 0 {
		c.Cap = len(st.Xs) + r.Intn(3)
		if c.Cap == 0 {
			c.Cap = 1
		}
		st.Cfg = c
	}
	return st
}

func genRoundtrip(r *rand.Rand, id string, tier string) string {
	d := 3
	if tier == "thorough" {
		d = 5
	}
	conv := "spread"
	if r.Intn(2) == 0 {
		conv = "single"
	}
	return conv + " " + genRTStack(r, r.Intn(d+1)).String()
}

func errTok(e error) string {
	if e == nil {
		return "ok"
	}
	return "err"
}

func lowerLabels(x any) any {
	if xs, ok := x.([]any); ok {
		out := make([]any, len(xs))
		for i, e := range xs {
			out[i] = lowerLabels(e)
		}
		if len(out) > 0 {
			if s, ok := out[0].(string); ok {
				out[0] = strings.ToUpper(s)
			}
		}
		return out
	}
	return x
}

func runRoundtrip(payload string) string {
	t := strings.Fields(payload)
	v, _ := parseV(t[1:])
	shareCache = map[string]stackage.Stack{}
	s := BuildStack(v)
	shareCache = nil
	u, uerr := s.Unmarshal()
	var z stackage.Stack
	var merr error
	if t[0] == "single" {
		merr = z.Marshal(u)
	} else {
		merr = z.Marshal(u...)
	}
	u2, _ := z.Unmarshal()
	fix := reflect.DeepEqual(lowerLabels(u), lowerLabels(u2))
	eq := "skip"
	if !strings.Contains(payload, "c=") {
		// a capacity is not carried by Unmarshal (skipped); case folding is an option, not a difference (repair F41)
		eq = errTok(s.IsEqual(z))
	}
	return fmt.Sprintf("U%s{%s} M%s Z{%s} F%s Q%s", errTok(uerr), Describe(any(u)), errTok(merr), Describe(z), b01(fix), eq)
}

// ---------------------------------------------------------------------------
// anytrees: arbitrary []any input to Marshal

var labels = []string{"AND", "and", "Or", "NOT", "list", "LIST", "basic", "BASIC", "CONDITION", "condition", "Condition", "junk", "", "lıst", "baſic", "AND ", "ANDX"}

func genAnyEntry(r *rand.Rand, depth int) V {
	switch r.Intn(16) {
	case 0, 1, 2:
		return V{T: 's', S: labels[r.Intn(len(labels))]}
	case 3:
		return V{T: 'N'}
	case 4:
		return V{T: 'i', I: int64(r.Intn(50))}
	case 5:
		return V{T: 'O', Op: []string{"c1", "c6", "c0", "c9", fmt.Sprintf("u1:%s:%s", hx("~="), hx("approx")), fmt.Sprintf("u2:%s:%s", hx(""), hx("c")), "-", "z", "y", "w",
			fmt.Sprintf("v1:%s:%s", hx("~~"), hx("list"))}[r.Intn(11)]} // v1: an operator of a type that cannot be compared with ==  (slice-backed)
	case 6:
		// typed nil pointer; pointers to zero-valued native instances; pointers to nil pointers
		return []V{{T: 'o', Ty: 5, ID: 1}, {T: 'o', Ty: 22, ID: 1}, {T: 'o', Ty: 23, ID: 1}, {T: 'o', Ty: 24, ID: 1}, {T: 'o', Ty: 25, ID: 1}, {T: 'o', Ty: 26, ID: 1}, {T: 'o', Ty: 20, ID: 3}}[r.Intn(7)]
	case 7:
		return V{T: 'K', Form: []string{"n", "a", "p"}[r.Intn(3)], Cfg: Cfg{Kind: kinds(r)}, Xs: []V{{T: 'i', I: 1}}}
	case 8:
		return V{T: 'C', Form: "n", Kw: "k", Op: "c1", Xs: []V{{T: 'i', I: 2}}}
	case 9:
		return []V{{T: 'Z', Form: "n"}, {T: 'Y', Form: "n"}, {T: 'Z', Form: "a"}, {T: 'o', Ty: 1, ID: 1}, {T: 'o', Ty: 4, ID: 1}, {T: 'o', Ty: 30, ID: 1}, {T: 'o', Ty: 30, ID: 2}}[r.Intn(7)]
	case 10, 11, 12, 13:
		if depth > 0 {
			return genAnyRow(r, depth-1)
		}
		return V{T: 'A'}
	default:
		return V{T: 's', S: fmt.Sprintf("v%d", r.Intn(20))}
	}
}

// genAnyCondRow: well-formed-ish CONDITION row with 0..6 fields; one expression entry in three (when depth allows) is itself
// such a row - well-formed or not - or, rarer, enveloped: extractConditionValues decodes it first, a Condition in a Condition
// comes out, or "Malformed condition" travels up (F43: this is the shape Unmarshal writes for a held Condition)
func genAnyCondRow(r *rand.Rand, depth int) V {
	row := V{T: 'A'}
	row.Xs = append(row.Xs, V{T: 's', S: []string{"CONDITION", "condition"}[r.Intn(2)]})
	n := r.Intn(6)
	if r.Intn(2) == 0 {
		n = 3
	}
	for i := 0; i < n; i++ {
		switch i {
		case 0:
			if r.Intn(4) == 0 {
				row.Xs = append(row.Xs, genAnyEntry(r, depth))
			} else {
				row.Xs = append(row.Xs, V{T: 's', S: "kw"})
			}
		case 1:
			if r.Intn(3) == 0 {
				row.Xs = append(row.Xs, genAnyEntry(r, depth))
			} else {
				row.Xs = append(row.Xs, V{T: 'O', Op: []string{"c1", "c5", "c0", "-", "z", "y", fmt.Sprintf("v1:%s:%s", hx("~~"), hx("list")), fmt.Sprintf("u1:%s:%s", hx("~="), hx("approx"))}[r.Intn(8)]})
			}
		case 2:
			if depth > 0 && r.Intn(3) == 0 {
				in := genAnyCondRow(r, depth-1)
				if r.Intn(6) == 0 {
					in = V{T: 'A', Xs: []V{in}}
				}
				row.Xs = append(row.Xs, in)
			} else {
				row.Xs = append(row.Xs, genAnyEntry(r, depth))
			}
		default:
			row.Xs = append(row.Xs, genAnyEntry(r, depth))
		}
	}
	return row
}

func genAnyRow(r *rand.Rand, depth int) V {
	row := V{T: 'A'}
	switch r.Intn(8) {
	case 0:
		return genAnyCondRow(r, depth)
	case 1: // envelopes
		inner := genAnyRow(r, depth)
		for i, n := 0, 1+r.Intn(3); i < n; i++ {
			inner = V{T: 'A', Xs: []V{inner}}
		}
		return inner
	case 2:
		// empty / single-element
		if r.Intn(2) == 0 {
			return row
		}
		row.Xs = []V{genAnyEntry(r, depth)}
	default:
		if r.Intn(5) != 0 {
			row.Xs = append(row.Xs, V{T: 's', S: labels[r.Intn(len(labels))]})
		}
		for i, n := 0, r.Intn(5); i < n; i++ {
			row.Xs = append(row.Xs, genAnyEntry(r, depth))
		}
	}
	return row
}

func genAnyTrees(r *rand.Rand, id string, tier string) string {
	d := 3
	if tier == "thorough" {
		d = 5
	}
	recv := "zero"
	switch r.Intn(8) {
	case 0:
		recv = V{T: 'K', Form: "n", Cfg: Cfg{Kind: kinds(r)}, Xs: []V{{T: 'i', I: 7}}}.String()
	case 1:
		recv = V{T: 'K', Form: "n", Cfg: Cfg{Kind: kinds(r), Cap: 1 + r.Intn(2)}, Xs: []V{{T: 'i', I: 7}}}.String()
	case 2:
		// initialised but empty, with or without a capacity: it gains one element and keeps its configuration
		recv = V{T: 'K', Form: "n", Cfg: Cfg{Kind: kinds(r), Cap: r.Intn(3), Fifo: r.Intn(2) == 0}}.String()
	case 3:
		// mutex and a push policy (1 accepts the decoded value, 5 rejects everything): Marshal must still return
		c := Cfg{Kind: kinds(r), Mtx: true, Ppf: []int{1, 5}[r.Intn(2)], Cap: r.Intn(3)}
		recv = V{T: 'K', Form: "n", Cfg: c}.String()
		if r.Intn(2) == 0 {
			recv = V{T: 'K', Form: "n", Cfg: Cfg{Kind: c.Kind, Mtx: true, Ppf: c.Ppf}, Xs: []V{{T: 'i', I: 7}}}.String()
		}
	}
	return recv + " | " + genAnyRow(r, r.Intn(d+1)).String()
}

func runAnyTrees(payload string) string {
	parts := strings.SplitN(payload, " | ", 2)
	var z stackage.Stack
	if parts[0] != "zero" {
		v, _ := parseV(strings.Fields(parts[0]))
		z = BuildStack(v)
	}
	in, _ := parseV(strings.Fields(parts[1]))
	args := Build(in).([]any)
	err := z.Marshal(args...)
	// whatever came out must be usable: these calls must return normally
	follow := guard(func() string {
		_ = z.String()
		_, _ = z.Unmarshal()
		_ = z.IsEqual(z)
		_ = z.IsEqual(stackage.List())
		_ = z.Len()
		// ... against a twin: the same input, built independently, marshalled into a receiver built the same way
		var z2 stackage.Stack
		if parts[0] != "zero" {
			v2, _ := parseV(strings.Fields(parts[0]))
			z2 = BuildStack(v2)
		}
		in2, _ := parseV(strings.Fields(parts[1]))
		_ = z2.Marshal(Build(in2).([]any)...)
		_, _ = z.IsEqual(z2), z2.IsEqual(z)
		// ... also against a stack of the same kind and length in which one position holds nil instead
		if z.IsInit() {
			for hole := 0; hole < z.Len() && hole < 4; hole++ {
				k := kindCode(z.Kind())
				if k == 0 {
					k = 4
				}
				o := newStack(k, 0)
				for i := 0; i < z.Len(); i++ {
					if x, _ := z.Index(i); i != hole {
						o.Push(x)
					} else {
						o.Push(nil)
					}
				}
				_, _ = z.IsEqual(o), o.IsEqual(z)
			}
		}
		return "usable"
	})
	neither := "0"
	if err == nil && !z.IsInit() {
		neither = "1"
	}
	return fmt.Sprintf("M%s I%s X%s Z{%s} %s", errTok(err), b01(z.IsInit()), neither, Describe(z), follow)
}
