package main

// Describe turns a real Go value back into a value literal (the inverse of Build),
// reading Stack / Condition internals through stackage.VerifDump.

import (
	"strconv"

	stackage "github.com/JesseCoretta/go-stackage"
)

func cfgOf(st stackage.VerifState) Cfg {
	c := Cfg{Kind: int(st.Kind), Opt: int(st.Opt), Fifo: st.Fifo, Sym: st.Sym, Ljc: st.Ljc, ID: st.ID, Cat: st.Cat, Mtx: st.Mtx}
	if st.Cap > 0 {
		c.Cap = st.Cap - 1
	}
	for _, e := range st.Enc {
		c.Enc = append(c.Enc, append([]string{}, e...))
	}
	if st.HasErr {
		c.Err = 1
		if len(st.Err) > 1 && st.Err[0] == 'E' {
			if n, err := strconv.Atoi(st.Err[1:]); err == nil {
				c.Err = n
			}
		}
	}
	return c
}

func Describe(x any) V {
	switch tv := x.(type) {
	case nil:
		return V{T: 'N'}
	case int:
		return V{T: 'i', I: int64(tv)}
	case string:
		return V{T: 's', S: tv}
	case bool:
		return V{T: 'b', B: tv}
	case float64:
		return V{T: 'n', Ty: 1, S: strconv.FormatFloat(tv, 'g', -1, 64)}
	case uint:
		return V{T: 'n', Ty: 2, S: strconv.FormatUint(uint64(tv), 10)}
	case int8:
		return V{T: 'n', Ty: 3, S: strconv.Itoa(int(tv))}
	case Strg:
		return V{T: 'g', ID: tv.ID, S: tv.S, B: tv == Strg{}}
	case []any:
		v := V{T: 'A'}
		for _, e := range tv {
			v.Xs = append(v.Xs, Describe(e))
		}
		return v
	case stackage.ComparisonOperator, UOp, LOp, *ZVOp, *ZPOp, ZFOp:
		return V{T: 'O', Op: opStr(tv.(stackage.Operator))}
	case stackage.Stack:
		return describeStack(tv, "n")
	case AStack:
		return describeStack(stackage.Stack(tv), "a")
	case SStack:
		return describeStack(stackage.Stack(tv), "as")
	case *AStack:
		if tv == nil {
			return V{T: 'o', Ty: 5, ID: 2}
		}
		return describeStack(stackage.Stack(*tv), "p")
	case stackage.Condition:
		return describeCond(tv, "n")
	case ACond:
		return describeCond(stackage.Condition(tv), "a")
	case SCond:
		return describeCond(stackage.Condition(tv), "as")
	case *ACond:
		if tv == nil {
			return V{T: 'o', Ty: 5, ID: 3}
		}
		return describeCond(stackage.Condition(*tv), "p")
	}
	if k, ok := opqKeyOf(x); ok {
		return V{T: 'o', Ty: k[0], ID: k[1]}
	}
	return V{T: 'o', Ty: 99, ID: 0}
}

func describeStack(s stackage.Stack, form string) V {
	st := stackage.VerifDump(s)
	if !st.Init {
		return V{T: 'Z', Form: form}
	}
	v := V{T: 'K', Form: form, Cfg: cfgOf(st)}
	for _, e := range st.Elems {
		v.Xs = append(v.Xs, Describe(e))
	}
	return v
}

func describeCond(c stackage.Condition, form string) V {
	st := stackage.VerifDump(c)
	if !st.Init {
		return V{T: 'Y', Form: form}
	}
	cf := cfgOf(st)
	cf.Kind = 0
	v := V{T: 'C', Form: form, Cfg: cf, Kw: st.Kw, Op: opStr(c.Operator())}
	v.Xs = []V{Describe(st.Elems[0])}
	return v
}
