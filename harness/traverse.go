package main

// stream `paths` (C07): random trees x index paths; Traverse compared with the model and
// with stepwise Index descent.

import (
	"fmt"
	"math/rand"
	"strings"

	stackage "github.com/JesseCoretta/go-stackage"
)

func init() {
	streams["paths"] = &stream{gen: genPaths, run: runPaths}
}

func genTravTree(r *rand.Rand, depth int) V {
	c := Cfg{Kind: kinds(r)}
	if r.Intn(4) == 0 {
		c.Opt |= fNeg
	}
	if r.Intn(4) == 0 {
		c.Opt |= fFwd
	}
	if r.Intn(5) == 0 {
		c.Opt |= fNNest // set after the content is in place: the option concerns Push, not Traverse
	}
	if r.Intn(6) == 0 {
		c.Vpf = 1 + r.Intn(2) // a validity policy (2 rejects): Index does not consult it, so neither may Traverse
	}
	if r.Intn(6) == 0 {
		c.Err = 7 // an error recorded by some earlier call (a rejected Push, SetErr): nothing Index or Traverse looks at
	}
	st := V{T: 'K', Form: []string{"n", "n", "n", "a", "as", "p"}[r.Intn(6)], Cfg: c}
	for i, n := 0, r.Intn(5); i < n; i++ {
		nextLeaf++
		switch {
		case depth > 0 && r.Intn(3) == 0:
			st.Xs = append(st.Xs, genTravTree(r, depth-1))
		case r.Intn(6) == 0:
			var ex V
			if depth > 0 && r.Intn(2) == 0 {
				ex = genTravTree(r, depth-1)
				if r.Intn(4) == 0 {
					// a Condition whose expression is a Condition (holding a Stack): not descendable
					ex = V{T: 'C', Form: []string{"n", "a"}[r.Intn(2)], Kw: "in", Op: "c1", Xs: []V{ex}}
				}
			} else {
				ex = V{T: 'i', I: int64(nextLeaf)}
			}
			st.Xs = append(st.Xs, V{T: 'C', Form: []string{"n", "n", "a", "p"}[r.Intn(4)], Kw: fmt.Sprintf("k%d", nextLeaf), Op: "c1", Xs: []V{ex}})
		case r.Intn(7) == 0:
			st.Xs = append(st.Xs, V{T: 'N'})
		case r.Intn(12) == 0:
			st.Xs = append(st.Xs, V{T: 'Z', Form: "n"})
		case r.Intn(10) == 0:
			// found is found: a pointer to a zero-valued (or freed) instance, a typed nil pointer and a plain []any are values like
			// any other at the END of a path, and nothing to descend into in the middle of one (whatever the index options say)
			st.Xs = append(st.Xs, []V{{T: 'o', Ty: 22, ID: 1}, {T: 'o', Ty: 20, ID: 3}, {T: 'o', Ty: 5, ID: 1}, {T: 'o', Ty: 23, ID: 1},
				{T: 'A', Xs: []V{{T: 's', S: "x"}, {T: 's', S: "y"}}}, {T: 'A'},
				{T: 'o', Ty: 33, ID: 1}, {T: 'o', Ty: 34, ID: 1}}[r.Intn(8)]) // (33 / 34: a struct that embeds a Stack has Traverse promoted to it and is no Stack for that)
		default:
			st.Xs = append(st.Xs, V{T: 'i', I: int64(nextLeaf)})
		}
	}
	return st
}

func genPaths(r *rand.Rand, id string, tier string) string {
	nextLeaf = 0
	d := 3
	if tier == "thorough" {
		d = 4
	}
	depth := r.Intn(d + 1)
	t := genTravTree(r, depth)
	t.Form = "n"
	var paths []string
	for k, np := 0, 1+r.Intn(6); k < np; k++ {
		var p []string
		for i, n := 0, r.Intn(depth+3); i < n; i++ {
			switch r.Intn(14) {
			case 0:
				p = append(p, "-9223372036854775808")
			case 1:
				p = append(p, "9223372036854775807")
			default:
				p = append(p, fmt.Sprint(r.Intn(7)-1))
			}
		}
		paths = append(paths, strings.TrimSpace("trav "+strings.Join(p, " ")))
	}
	return t.String() + " | " + strings.Join(paths, " ; ")
}

func runPaths(payload string) string {
	parts := strings.SplitN(payload, " | ", 2)
	v, _ := parseV(strings.Fields(parts[0]))
	s := BuildStack(v)
	var outs []string
	for _, op := range strings.Split(parts[1], " ; ") {
		t := strings.Fields(op)
		var idx []int
		for _, x := range t[1:] {
			idx = append(idx, atoi64(x))
		}
		outs = append(outs, guard(func() string {
			x, ok := s.Traverse(idx...)
			return Describe(x).String() + ":" + b01(ok)
		}))
	}
	_ = stackage.Stack{}
	return strings.Join(outs, " ; ")
}
