package main

// stream `awk` (C08, value part): every `any`-taking method fed with a catalogue of awkward Go
// values (typed nils of any depth, zero Stacks/Conditions/aliases, funcs, chans, maps, structs with
// unexported fields, pointers to pointers, NaN); afterwards the stack is re-read.

import (
	"fmt"
	"math"
	"math/rand"
	"strings"

	stackage "github.com/JesseCoretta/go-stackage"
)

func init() {
	streams["awk"] = &stream{gen: genAwk, run: runAwk}
	// awkward values by (class, id); classes 1..6 are in val.go
	awkStore()
}

type privStruct struct {
	A int
	b string
}

func awkStore() {
	var nilAlias *AStack
	var nilCondAlias *ACond
	var nilStack *stackage.Stack
	var nilCond *stackage.Condition
	var pp **int
	var nilMap map[string]int
	var nilFunc func()
	var nilChan chan int
	var nilSlice []int
	three := 3
	p3 := &three
	opqStore[[2]int{20, 1}] = nilAlias
	opqStore[[2]int{20, 2}] = nilCondAlias
	opqStore[[2]int{20, 3}] = nilStack
	opqStore[[2]int{20, 4}] = nilCond
	opqStore[[2]int{20, 5}] = pp
	opqStore[[2]int{20, 6}] = nilMap
	opqStore[[2]int{20, 7}] = nilFunc
	opqStore[[2]int{20, 8}] = nilChan
	opqStore[[2]int{20, 9}] = nilSlice
	opqStore[[2]int{21, 1}] = privStruct{1, "x"}
	opqStore[[2]int{21, 2}] = &privStruct{2, "y"}
	opqStore[[2]int{21, 3}] = &p3
	opqStore[[2]int{21, 4}] = math.NaN()
	opqStore[[2]int{21, 5}] = [2]int{1, 2}
	opqStore[[2]int{21, 6}] = struct{}{}
	opqStore[[2]int{21, 7}] = complex(1, 2)
	opqStore[[2]int{21, 8}] = uintptr(7)
	opqStore[[2]int{21, 9}] = error(fmt.Errorf("e"))
}

var awkIDs = [][2]int{{1, 1}, {2, 1}, {3, 1}, {4, 1}, {5, 1}, {6, 1},
	{20, 1}, {20, 2}, {20, 3}, {20, 4}, {20, 5}, {20, 6}, {20, 7}, {20, 8}, {20, 9},
	{21, 1}, {21, 2}, {21, 3}, {21, 5}, {21, 6}, {21, 8}, {21, 9}, {22, 1}, {23, 1}, {24, 1}, {25, 1}, {26, 1}, {27, 1}, {28, 1}, {29, 1},
	{33, 1}, {34, 1}, {35, 1}, {35, 2}, {35, 3}}

func genAwkVal(r *rand.Rand) V {
	switch r.Intn(6) {
	case 0:
		return V{T: 'Z', Form: []string{"n", "a", "p"}[r.Intn(3)]}
	case 1:
		return V{T: 'Y', Form: []string{"n", "a", "p"}[r.Intn(3)]}
	default:
		k := awkIDs[r.Intn(len(awkIDs))]
		return V{T: 'o', Ty: k[0], ID: k[1]}
	}
}

func genAwk(r *rand.Rand, id string, tier string) string {
	c := Cfg{Kind: kinds(r)}
	if r.Intn(3) == 0 {
		c.Opt |= fNNest
	}
	st := V{T: 'K', Form: "n", Cfg: c}
	for i, n := 0, r.Intn(3); i < n; i++ {
		st.Xs = append(st.Xs, genAwkVal(r))
	}
	var ops []string
	for i, n := 0, 1+r.Intn(6); i < n; i++ {
		switch r.Intn(17) {
		case 16:
			// an awkward Operator (nil, typed nil pointers with value / pointer receivers, empty texts) as comparand
			ops = append(ops, "q condop O"+[]string{"w", "z", "y", "-", "c0", "c200", "u2:" + hx("") + ":" + hx("ctx"), "v3:" + hx("") + ":" + hx("list")}[r.Intn(8)])
		case 0, 1, 2:
			ops = append(ops, "push "+genAwkVal(r).String()+" "+genAwkVal(r).String())
		case 3:
			ops = append(ops, fmt.Sprintf("ins %s %d", genAwkVal(r), r.Intn(3)))
		case 4:
			ops = append(ops, fmt.Sprintf("rep %s %d", genAwkVal(r), r.Intn(3)))
		case 5:
			ops = append(ops, "q string")
		case 6:
			ops = append(ops, "q unmarshal")
		case 7:
			ops = append(ops, "q isequal "+genAwkVal(r).String())
		case 8:
			ops = append(ops, "q isequalself")
		case 9:
			ops = append(ops, "q xferto")
		case 10:
			ops = append(ops, "q reveal")
		case 11:
			ops = append(ops, "q defrag")
		case 12:
			ops = append(ops, fmt.Sprintf("q traverse %d %d", r.Intn(3), r.Intn(2)))
		case 13:
			ops = append(ops, "q convert "+genAwkVal(r).String())
		case 14:
			ops = append(ops, "q condex "+genAwkVal(r).String())
		case 15:
			if r.Intn(2) == 0 {
				ops = append(ops, "q revealin "+genAwkVal(r).String())
			} else {
				ops = append(ops, "q xfer "+genAwkVal(r).String())
			}
		}
	}
	return st.String() + " | " + strings.Join(ops, " ; ")
}

func runAwk(payload string) string {
	parts := strings.SplitN(payload, " | ", 2)
	v, _ := parseV(strings.Fields(parts[0]))
	s := BuildStack(v)
	var outs []string
	outs = append(outs, "init "+obsStack(s))
	for _, op := range strings.Split(parts[1], " ; ") {
		t := strings.Fields(op)
		var ret string
		if t[0] != "q" {
			ret = applyOp(s, op)
		} else {
			ret = guard(func() string {
				switch t[1] {
				case "string":
					_ = s.String()
				case "unmarshal":
					_, _ = s.Unmarshal()
				case "isequal":
					x, _ := parseV(t[2:])
					_ = s.IsEqual(Build(x))
				case "isequalself":
					cp := stackage.List()
					s.Transfer(cp)
					_ = s.IsEqual(cp)
					_ = cp.IsEqual(s)
				case "xferto":
					cp := stackage.List()
					s.Transfer(cp)
				case "reveal":
					s.Reveal()
				case "revealin":
					// the value as the only element of an envelope (and of an envelope in an envelope): Reveal asks it nothing
					// unless it is a Stack or a Condition
					x, _ := parseV(t[2:])
					gx := Build(x)
					stackage.List().Push(stackage.And().Push(gx)).Reveal()
					stackage.And().Push(stackage.Or().Push(stackage.List().Push(gx)), 1).Reveal()
				case "defrag":
					s.Defrag()
				case "traverse":
					_, _ = s.Traverse(atoi64(t[2]), atoi64(t[3]))
				case "convert":
					x, _ := parseV(t[2:])
					gx := Build(x)
					_, ok1 := stackage.ConvertStack(gx)
					_, ok2 := stackage.ConvertCondition(gx)
					return b01(ok1) + b01(ok2)
				case "condex":
					x, _ := parseV(t[2:])
					c := stackage.Cond("k", stackage.Eq, Build(x))
					_ = c.String()
					_ = c.IsEqual(c)
					_, _ = c.Unmarshal()
					_ = c.Len()
					_ = c.IsNesting()
				case "condop":
					o := opOf(t[2][1:])
					c := stackage.Cond("k", o, "x")
					_, _, _, _ = c.String(), c.IsEqual(c), c.Valid(), c.Operator()
					var d stackage.Condition
					d.Init()
					d.SetKeyword("k").SetOperator(o).SetExpression(s)
					_, _, _ = d.String(), d.IsEqual(c), c.IsEqual(d)
					_, _ = d.Unmarshal()
					t := stackage.And().Push(c, d)
					_, _ = t.String(), t.IsEqual(t)
				case "xfer":
					x, _ := parseV(t[2:])
					return b01(s.Transfer(Build(x)))
				}
				return "ok"
			})
		}
		outs = append(outs, ret+" "+obsStack(s))
	}
	return strings.Join(outs, " ; ")
}
