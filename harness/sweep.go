package main

// Reflection-driven method sweeps (C09 `frozen`, C11 `queries`, C17 `inert`).
//
// Methods of Stack, *Stack, Condition, *Condition are enumerated by reflection, so methods
// added later are included; arguments are generated from the parameter types. A parameter
// type the sweep does not know makes it refuse to run (fail closed).
//
// case payload:  <receiver> | Name arg , arg ; Name arg ; ...
//   receiver: a K / C literal, or zero-stack | freed-stack | zero-cond | freed-cond | init-cond
//   args: #<int>  $<hex string>  ?<0|1>  !<err class|0>  @<closure/aux id>  O<op>  or a value literal

import (
	"bytes"
	"fmt"
	"log"
	"math/rand"
	"reflect"
	"sort"
	"strconv"
	"strings"

	stackage "github.com/JesseCoretta/go-stackage"
)

func init() {
	streams["frozen"] = &stream{gen: genFrozen, run: runSweep}
	streams["inert"] = &stream{gen: genInert, run: runSweep}
	streams["initonly"] = &stream{gen: genInitOnly, run: runSweep}
	streams["queries"] = &stream{gen: genQueries, run: runSweep}
	streams["nestedro"] = &stream{gen: genNestedRO, run: runSweep}
	streams["methods"] = &stream{gen: func(*rand.Rand, string, string) string { return "list" }, run: func(string) string { return methodList() }}
}

// ---------------------------------------------------------------------------
// method enumeration

func methodNames(kind string) []string {
	var t reflect.Type
	if kind == "stack" {
		t = reflect.TypeOf(&stackage.Stack{})
	} else {
		t = reflect.TypeOf(&stackage.Condition{})
	}
	var out []string
	for i := 0; i < t.NumMethod(); i++ {
		n := t.Method(i).Name
		if strings.HasPrefix(n, "Verif") {
			continue
		}
		out = append(out, n)
	}
	sort.Strings(out)
	return out
}

func methodList() string {
	return "stack=" + strings.Join(methodNames("stack"), ",") + " cond=" + strings.Join(methodNames("cond"), ",")
}

// mutators per the declared list of C11 ("enumerated by reflection against a declared mutator list")
var declaredMutators = map[string]bool{}

func init() {
	for _, n := range strings.Fields(`Push Pop Insert Remove Replace Swap Reverse Reset Defrag Reveal Free Marshal Init
		SetParen Paren SetFold Fold SetNoPadding NoPadding SetLeadOnce LeadOnce SetNegativeIndices NegativeIndices SetForwardIndices ForwardIndices
		SetNoNesting NoNesting SetReadOnly ReadOnly SetFIFO SetID SetCategory SetDelimiter SetSymbol Symbol SetEncap Encap SetAuxiliary SetMutex Mutex
		SetErr SetLogger SetLogLevel UnsetLogLevel SetPushPolicy SetValidityPolicy SetPresentationPolicy SetEqualityPolicy SetMarshaler SetUnmarshaler
		SetLessFunc SetKeyword SetOperator SetExpression SetEvaluator`) {
		declaredMutators[n] = true
	}
}

// ---------------------------------------------------------------------------
// argument generation by parameter type

var anyPool = []string{"C n - - c1 N", "C n - - - N", "C a - - c2 i1", "N", "i7", "i1", "i2", "s78", "b1", "K n k=4 [ i1 ]", "K a k=1 [ ]", "C n - 6b c1 i2", "Z n", "Y n", "o20:1", "o20:5", "o21:1", "o1:1", "s-", "A [ s414e44 i1 ]", "o22:1", "o23:1",
	// live instances carrying a permissive / a rejecting EqualityPolicy: the receiver's state decides, not the argument's closure
	"K n k=1,eqf=1 [ ]", "K n k=4,eqf=1 [ i1 ]", "K a k=2,eqf=2 [ ]", "C n eqf=1 6b c1 i2", "C n eqf=1 - - N", "C a eqf=2 6b c1 i2"}

func genArgs(r *rand.Rand, m reflect.Method, name string) ([]string, bool) {
	var args []string
	if name == "Marshal" && r.Intn(3) != 0 {
		// well-formed rows: a lone CONDITION tuple, a stack row, an enveloped row
		return [][]string{{"s434f4e444954494f4e", "s6b", "Oc1", "i1"}, {"s414e44", "i1", "i2"}, {"A [ s4c495354 i1 ]"},
			{"A [ s434f4e444954494f4e s6b Oc2 i5 ]"}}[r.Intn(4)], true
	}
	mt := m.Type
	for i := 1; i < mt.NumIn(); i++ { // 0 is the receiver
		pt := mt.In(i)
		variadic := mt.IsVariadic() && i == mt.NumIn()-1
		one := func(t reflect.Type) (string, bool) {
			switch t.String() {
			case "int":
				return "#" + []string{"-1", "0", "1", "2", "5", "-9223372036854775808", "9223372036854775807"}[r.Intn(7)], true
			case "string":
				return "$" + hx([]string{"", "x", "id1", "_addr", ", "}[r.Intn(5)]), true
			case "bool":
				return "?" + strconv.Itoa(r.Intn(2)), true
			case "interface {}":
				return anyPool[r.Intn(len(anyPool))], true
			case "error":
				return "!" + []string{"0", "7"}[r.Intn(2)], true
			case "stackage.Operator":
				return "O" + []string{"-", "c1", "c0", fmt.Sprintf("u1:%s:%s", hx("~="), hx("approx")), "z", "y"}[r.Intn(6)], true
			case "stackage.Auxiliary", "stackage.PushPolicy", "stackage.ValidityPolicy", "stackage.PresentationPolicy",
				"stackage.EqualityPolicy", "stackage.Marshaler", "stackage.Unmarshaler", "stackage.LessFunc", "stackage.Evaluator":
				return "@" + strconv.Itoa(r.Intn(3)), true
			}
			return "", false
		}
		if variadic {
			n := r.Intn(3)
			if name == "Traverse" {
				n = r.Intn(4)
			}
			for k := 0; k < n; k++ {
				a, ok := one(pt.Elem())
				if !ok {
					return nil, false
				}
				args = append(args, a)
			}
			continue
		}
		a, ok := one(pt)
		if !ok {
			return nil, false
		}
		args = append(args, a)
	}
	return args, true
}

func closureFor(t reflect.Type, id int) reflect.Value {
	if id == 0 {
		return reflect.Zero(t)
	}
	switch t.String() {
	case "stackage.Auxiliary":
		return reflect.ValueOf(stackage.Auxiliary{"k": id})
	case "stackage.PushPolicy":
		return reflect.ValueOf(pushPolicy(id))
	case "stackage.ValidityPolicy":
		return reflect.ValueOf(stackage.ValidityPolicy(func(...any) error {
			if id == 2 {
				return errOf(201)
			}
			return nil
		}))
	case "stackage.PresentationPolicy":
		return reflect.ValueOf(stackage.PresentationPolicy(func(...any) string { return fmt.Sprintf("<P%d>", id) }))
	case "stackage.EqualityPolicy":
		return reflect.ValueOf(stackage.EqualityPolicy(func(any, any) error {
			if id == 2 {
				return errOf(202)
			}
			return nil
		}))
	case "stackage.Marshaler":
		return reflect.ValueOf(stackage.Marshaler(func(...any) error {
			if id == 2 {
				return errOf(203)
			}
			return nil
		}))
	case "stackage.Unmarshaler":
		return reflect.ValueOf(unmarshalerFor(id)) // val.go: ["U", id]; id 3 also returns an error
	case "stackage.LessFunc":
		return reflect.ValueOf(stackage.LessFunc(func(i, j int) bool { return i < j }))
	case "stackage.Evaluator":
		return reflect.ValueOf(stackage.Evaluator(func(...any) (any, error) { return id, nil }))
	}
	panic("no closure for " + t.String())
}

func parseArg(tok string, t reflect.Type) reflect.Value {
	switch t.String() {
	case "int":
		return reflect.ValueOf(atoi64(tok[1:]))
	case "string":
		return reflect.ValueOf(unhx(tok[1:]))
	case "bool":
		return reflect.ValueOf(tok == "?1")
	case "error":
		e := errOf(atoi64(tok[1:]))
		if e == nil {
			return reflect.Zero(t)
		}
		return reflect.ValueOf(e)
	case "stackage.Operator":
		o := opOf(tok[1:])
		if o == nil {
			return reflect.Zero(t)
		}
		return reflect.ValueOf(o)
	case "interface {}":
		v, _ := parseV(strings.Fields(tok))
		x := Build(v)
		if x == nil {
			return reflect.Zero(t)
		}
		return reflect.ValueOf(x)
	}
	if tok[0] == '@' {
		return closureFor(t, atoi64(tok[1:]))
	}
	panic("cannot parse arg " + tok + " as " + t.String())
}

// ---------------------------------------------------------------------------
// result rendering (by result type)

func resTok(v reflect.Value) string {
	switch v.Type().String() {
	case "bool":
		return "b" + b01(v.Bool())
	case "int":
		return "#" + strconv.FormatInt(v.Int(), 10)
	case "string":
		return "$" + hx(v.String())
	case "error":
		if v.IsNil() {
			return "e0"
		}
		return "e1"
	case "interface {}":
		if v.IsNil() {
			return "N"
		}
		return Short(v.Interface())
	case "[]interface {}":
		if v.IsNil() {
			return "A-"
		}
		return "A#" + strconv.Itoa(v.Len())
	case "stackage.Stack":
		return "self" + b01(v.Interface().(stackage.Stack).IsInit())
	case "stackage.Condition":
		return "self" + b01(v.Interface().(stackage.Condition).IsInit())
	case "*log.Logger":
		if v.IsNil() {
			return "l0"
		}
		return "l1"
	case "stackage.Auxiliary":
		if v.IsNil() {
			return "x-"
		}
		return "x" + strconv.Itoa(v.Len())
	case "stackage.Operator":
		if v.IsNil() {
			return "O-"
		}
		return "O" + opStr(v.Interface().(stackage.Operator))
	}
	return "?" + v.Type().String()
}

// ---------------------------------------------------------------------------
// deep dump

func deepDump(x any) string {
	var b strings.Builder
	var walk func(x any)
	walk = func(x any) {
		var st stackage.VerifState
		if s, ok := stackage.ConvertStack(x); ok {
			st = stackage.VerifDump(s)
		} else if c, ok := stackage.ConvertCondition(x); ok {
			st = stackage.VerifDump(c)
		} else {
			b.WriteString(Short(x))
			b.WriteByte(' ')
			return
		}
		fmt.Fprintf(&b, "{%v %d %d %d %v %q %q %q %q %q %v %q %v %d %d %v %v %d %d %d %d %d %d %d %d %d %d %d %q %v %q %q %v [", st.Init, st.Kind, st.Cap, st.Opt, st.Fifo,
			st.Sym, st.Ljc, fmt.Sprint(st.Enc), st.ID, st.Cat, st.HasErr, st.Err, st.AuxNil, st.AuxPtr, st.AuxLen, st.Mtx, st.Locked,
			st.Ppf, st.Vpf, st.Rpf, st.Eqf, st.Lss, st.Umf, st.Maf, st.Evl, st.Logger, st.Lvl, st.RawLen, st.Kw, st.OpNil, st.OpStr, st.OpCtx, st.ExNil)
		for _, e := range st.Elems {
			walk(e)
		}
		b.WriteString("]} ")
	}
	walk(x)
	return b.String()
}

// ---------------------------------------------------------------------------
// running a case

type recvBox struct {
	kind string // stack | cond
	s    stackage.Stack
	c    stackage.Condition
}

func (r *recvBox) val() any {
	if r.kind == "stack" {
		return r.s
	}
	return r.c
}

func (r *recvBox) ptr() reflect.Value {
	if r.kind == "stack" {
		return reflect.ValueOf(&r.s)
	}
	return reflect.ValueOf(&r.c)
}

func buildRecv(tok string) *recvBox {
	switch tok {
	case "zero-stack":
		return &recvBox{kind: "stack"}
	case "freed-stack":
		s := stackage.And().Push(1, 2)
		s.Free()
		return &recvBox{kind: "stack", s: s}
	case "zero-cond":
		return &recvBox{kind: "cond"}
	case "freed-cond":
		c := stackage.Cond("k", stackage.Eq, 1)
		c.Free()
		return &recvBox{kind: "cond", c: c}
	case "init-cond":
		var c stackage.Condition
		c.Init()
		return &recvBox{kind: "cond", c: c}
	}
	v, _ := parseV(strings.Fields(tok))
	if v.T == 'K' {
		return &recvBox{kind: "stack", s: BuildStack(v)}
	}
	return &recvBox{kind: "cond", c: BuildCond(v)}
}

func splitArgs(s string) []string {
	s = strings.TrimSpace(s)
	if s == "" {
		return nil
	}
	return strings.Split(s, " , ")
}

var pkgLogSink bytes.Buffer

// setPkgDefaults switches the package-level defaults (loggers, log levels) to what an application that wants logging sets, or back
func setPkgDefaults(on bool) {
	defer func() { recover() }()
	if on {
		pkgLogSink.Reset()
		lg := log.New(&pkgLogSink, "pkg ", 0)
		stackage.SetDefaultStackLogger(lg)
		stackage.SetDefaultConditionLogger(lg)
		stackage.SetDefaultStackLogLevel(stackage.AllLogLevels)
		stackage.SetDefaultConditionLogLevel(stackage.AllLogLevels)
		return
	}
	stackage.SetDefaultStackLogger("off")
	stackage.SetDefaultConditionLogger("off")
	stackage.SetDefaultStackLogLevel(stackage.NoLogLevels)
	stackage.SetDefaultConditionLogLevel(stackage.NoLogLevels)
}

// prepared: a call whose arguments have been built once, so that several goroutines can issue the very same call (same
// receiver instance, same argument values) at the same time
type prepared struct {
	m     reflect.Method
	found bool
	args  []reflect.Value
	bad   bool
}

func prepare(r *recvBox, call string) (p prepared) {
	fields := strings.SplitN(strings.TrimSpace(call), " ", 2)
	p.m, p.found = r.ptr().Type().MethodByName(fields[0])
	if !p.found {
		return
	}
	var toks []string
	if len(fields) > 1 {
		toks = splitArgs(fields[1])
	}
	defer func() {
		if rec := recover(); rec != nil {
			p.bad = true
		}
	}()
	mt := p.m.Type
	k := 0
	for i := 1; i < mt.NumIn(); i++ {
		if mt.IsVariadic() && i == mt.NumIn()-1 {
			for ; k < len(toks); k++ {
				p.args = append(p.args, parseArg(toks[k], mt.In(i).Elem()))
			}
			break
		}
		p.args = append(p.args, parseArg(toks[k], mt.In(i)))
		k++
	}
	return
}

func invokePrepared(r *recvBox, p prepared) (res string, ok bool) {
	if !p.found {
		return "NOMETHOD", false
	}
	if p.bad {
		return "PANIC", false
	}
	defer func() {
		if rec := recover(); rec != nil {
			res, ok = "PANIC", false
		}
	}()
	out := p.m.Func.Call(append([]reflect.Value{r.ptr()}, p.args...))
	var rs []string
	for _, o := range out {
		rs = append(rs, resTok(o))
	}
	if len(rs) == 0 {
		return "-", true
	}
	return strings.Join(rs, ","), true
}

func invoke(r *recvBox, call string) (res string, ok bool) {
	fields := strings.SplitN(strings.TrimSpace(call), " ", 2)
	name := fields[0]
	m, found := r.ptr().Type().MethodByName(name)
	if !found {
		return "NOMETHOD", false
	}
	var toks []string
	if len(fields) > 1 {
		toks = splitArgs(fields[1])
	}
	defer func() {
		if rec := recover(); rec != nil {
			res, ok = "PANIC", false
		}
	}()
	in := []reflect.Value{r.ptr()}
	mt := m.Type
	k := 0
	for i := 1; i < mt.NumIn(); i++ {
		if mt.IsVariadic() && i == mt.NumIn()-1 {
			for ; k < len(toks); k++ {
				in = append(in, parseArg(toks[k], mt.In(i).Elem()))
			}
			break
		}
		in = append(in, parseArg(toks[k], mt.In(i)))
		k++
	}
	out := m.Func.Call(in)
	var rs []string
	for _, o := range out {
		rs = append(rs, resTok(o))
	}
	if len(rs) == 0 {
		return "-", true
	}
	return strings.Join(rs, ","), true
}

var _ = log.New

func runSweep(payload string) string {
	parts := strings.SplitN(payload, " | ", 3)
	mode := parts[0]
	if strings.HasSuffix(parts[1], "+d") {
		// the application has configured the package: default loggers that do not discard, every default log level on.
		// That concerns instances created from now on - never what an inert instance answers.
		parts[1] = strings.TrimSuffix(parts[1], "+d")
		setPkgDefaults(true)
		defer setPkgDefaults(false)
	}
	r := buildRecv(parts[1])
	d0 := deepDump(r.val())
	var roChild any // nestedro: the read-only Stack nested in the (writable) receiver
	if mode == "nestedro" {
		for i := 0; i < r.s.Len(); i++ {
			x, _ := r.s.Index(i)
			if c, ok := stackage.ConvertStack(x); ok && c.IsReadOnly() {
				roChild = c
				break
			}
			if cc, ok := stackage.ConvertCondition(x); ok {
				if c, ok := stackage.ConvertStack(cc.Expression()); ok && c.IsReadOnly() {
					roChild = c
					break
				}
			}
		}
	}
	var outs []string
	for _, call := range strings.Split(parts[2], " ; ") {
		name := strings.SplitN(strings.TrimSpace(call), " ", 2)[0]
		before := deepDump(r.val())
		roBefore := ""
		if roChild != nil {
			roBefore = deepDump(roChild)
		}
		res, _ := invoke(r, call)
		after := deepDump(r.val())
		changed := b01(before != after)
		switch mode {
		case "nestedro":
			outs = append(outs, name+" D?")
			if roChild != nil {
				outs[len(outs)-1] = name + " D" + b01(roBefore != deepDump(roChild))
			}
		case "frozen":
			// state is what matters; Free's error too
			tok := name + " D" + changed
			if name == "Free" || res == "PANIC" {
				tok += " " + res
			}
			if name == "SetReadOnly" || name == "ReadOnly" {
				// restored: apart from the read-only bit, exactly the state at the start
				ro := r.val()
				_ = ro
				tok += " R" + b01(stripRO(after) == stripRO(d0))
			}
			if name == "Push" {
				tok += " " + res
			}
			outs = append(outs, tok)
		case "inert":
			alive := "0"
			if (r.kind == "stack" && r.s.IsInit()) || (r.kind == "cond" && r.c.IsInit()) {
				alive = "1"
			}
			outs = append(outs, fmt.Sprintf("%s %s Z%s", name, res, alive))
		case "initonly":
			// an Init()-only Condition is initialised: what is asked of it is to return normally, whatever the argument
			tok := name + " ok"
			if res == "PANIC" {
				tok = name + " PANIC"
			}
			outs = append(outs, tok)
		case "queries":
			res2, _ := invoke(r, call)
			after2 := deepDump(r.val())
			outs = append(outs, fmt.Sprintf("%s D%s S%s", name, b01(before != after || after != after2), b01(res == res2 || name == "Addr")))
			if res == "PANIC" {
				outs[len(outs)-1] += " PANIC"
			}
		}
	}
	if mode == "nestedro" {
		// the read-only Stack as a value that OTHER instances are given: pushed into a mutex-enabled collector (as it is, as an alias,
		// as a Condition's expression, with a push policy), carried there by Transfer, compared, rendered - it stays exactly as it was
		tok := "collect D?"
		if roChild != nil {
			roBefore := deepDump(roChild)
			guard(func() string {
				ro, _ := stackage.ConvertStack(roChild)
				c1 := stackage.And()
				c1.SetMutex()
				c1.Push(ro, AStack(ro), stackage.Cond("k", stackage.Eq, ro))
				c2 := stackage.List()
				c2.SetMutex()
				c2.SetPushPolicy(pushPolicy(4))
				c2.Push(ro, "x")
				src := stackage.Or().Push(ro, 1)
				src.SetReadOnly(true)
				c3 := stackage.And()
				c3.SetMutex()
				src.Transfer(c3)
				_ = c1.String()
				c1.IsEqual(c3)
				c1.Unmarshal()
				c1.Traverse(0, 0)
				c1.IsNesting()
				// ... and as the argument of another instance's setters that take `any` (a logger, a delimiter, an ID is not
				// what it is, but it is what the caller passed): what that other instance is told afterwards is its own business
				w := stackage.List()
				w.SetLogger(ro)
				w.SetLogLevel(stackage.AllLogLevels)
				w.SetLogger("stderr")
				w.UnsetLogLevel(stackage.LogLevel1)
				w.SetLogger("off")
				w.SetDelimiter(ro)
				wc := stackage.Cond("k", stackage.Eq, "v")
				wc.SetLogger(stackage.Cond("k", stackage.Eq, ro))
				wc.SetLogger(ro)
				wc.SetLogLevel(stackage.AllLogLevels)
				wc.SetLogger("off")
				return ""
			})
			tok = "collect D" + b01(roBefore != deepDump(roChild))
		}
		outs = append(outs, tok)
	}
	if mode == "queries" && r.kind == "stack" && r.s.IsInit() {
		// containers handed back must not be the stack's own storage
		u, _ := r.s.Unmarshal()
		before := deepDump(r.val())
		answer := Describe(any(u)).String()
		tamperAll(u)
		again, _ := r.s.Unmarshal()
		// neither the Stack nor what it answers next time depends on what the caller does to the container it was handed
		outs = append(outs, "tamper D"+b01(before != deepDump(r.val()))+" A"+b01(answer != Describe(any(again)).String()))
	}
	return strings.Join(outs, " ; ")
}

// tamperAll overwrites every position of the container, nested containers first
func tamperAll(u []any) {
	for i := range u {
		if in, ok := u[i].([]any); ok {
			tamperAll(in)
		}
		u[i] = "tampered"
	}
}

// stripRO removes the read-only bit from the Opt field of the top-level dump
func stripRO(d string) string {
	f := strings.SplitN(d, " ", 5)
	if len(f) < 5 {
		return d
	}
	n, err := strconv.Atoi(f[3])
	if err != nil {
		return d
	}
	f[3] = strconv.Itoa(n &^ 128)
	return strings.Join(f, " ")
}

// ---------------------------------------------------------------------------
// generators

func genCall(r *rand.Rand, kind, name string) string {
	var t reflect.Type
	if kind == "stack" {
		t = reflect.TypeOf(&stackage.Stack{})
	} else {
		t = reflect.TypeOf(&stackage.Condition{})
	}
	m, _ := t.MethodByName(name)
	args, ok := genArgs(r, m, name)
	if !ok {
		panic("sweep: method " + name + " has a parameter type the sweep does not know")
	}
	return strings.TrimSpace(name + " " + strings.Join(args, " , "))
}

func sprinklePolicies(r *rand.Rand, v *V) {
	if (v.T == 'K' || v.T == 'C') && r.Intn(3) == 0 {
		v.Cfg.Vpf = 1 + r.Intn(2)
	}
	if v.T == 'K' && v.Cfg.Kind != 6 && r.Intn(5) == 0 {
		v.Cfg.Rpf = 1 + r.Intn(2)
	}
	for i := range v.Xs {
		sprinklePolicies(r, &v.Xs[i])
	}
}

func genSweepRecv(r *rand.Rand) (string, string) {
	if r.Intn(3) == 0 {
		c := genRenderCond(r, 1)
		c.Cfg.Enc = nil
		if r.Intn(5) == 0 {
			// a multi-valued expression ([]string) on a Condition that encapsulates its value: rendering reads the slice
			c.Xs[0] = V{T: 'o', Ty: 31, ID: 1 + r.Intn(3)}
			c.Cfg.Enc = [][]string{{`"`}}
			if r.Intn(2) == 0 {
				c.Cfg.Enc = [][]string{{"(", ")"}, {"'"}}
			}
		}
		if r.Intn(3) == 0 {
			sprinklePolicies(r, &c)
		}
		if r.Intn(4) == 0 && c.Xs[0].T != 'K' {
			c.Cfg.Opt |= fNNest
		}
		return c.String(), "cond"
	}
	nextLeaf = 0
	st := genRenderStack(r, 1+r.Intn(2), kinds(r))
	st.Cfg.Enc = nil
	if r.Intn(3) == 0 {
		// closures installed on some nodes (a rejecting validity policy among them): queries run them but store nothing
		sprinklePolicies(r, &st)
	}
	if r.Intn(3) == 0 {
		// a fragmented instance: nil slots at either end and between the elements, at the top and one level down
		// (a query that skips over them must not tidy them up)
		holes := func(xs []V) []V {
			var out []V
			if r.Intn(2) == 0 {
				out = append(out, V{T: 'N'})
			}
			for _, x := range xs {
				out = append(out, x)
				if r.Intn(3) == 0 {
					out = append(out, V{T: 'N'})
				}
			}
			if r.Intn(2) == 0 {
				out = append(out, V{T: 'N'})
			}
			return out
		}
		st.Xs = holes(st.Xs)
		for i := range st.Xs {
			if st.Xs[i].T == 'K' && r.Intn(2) == 0 {
				st.Xs[i].Xs = holes(st.Xs[i].Xs)
			}
		}
	}
	if r.Intn(3) == 0 {
		st.Cfg.Cap = len(st.Xs) + r.Intn(3) + 1
	}
	if r.Intn(3) == 0 {
		st.Cfg.Mtx = true
	}
	if r.Intn(4) == 0 {
		st.Cfg.Opt |= fNNest // every option bit must survive a read-only round trip
	}
	if r.Intn(5) == 0 {
		st.Cfg.Opt |= fNeg | fFwd
	}
	return st.String(), "stack"
}

func genFrozen(r *rand.Rand, id string, tier string) string {
	recv, kind := genSweepRecv(r)
	// switch read-only on
	v, _ := parseV(strings.Fields(recv))
	v.Cfg.Opt |= fRO
	if r.Intn(4) == 0 {
		v.Cfg.Err = 7 // an error is already recorded (SetErr is a documented exception): the guards must not depend on it
	}
	names := methodNames(kind)
	var calls []string
	if kind == "stack" && r.Intn(5) == 0 {
		// a push policy that refuses everything (5) / strings (2) is installed: no call on the frozen instance gets as far as asking it
		v.Cfg.Ppf = []int{5, 2, 1}[r.Intn(3)]
		calls = append(calls, genCall(r, kind, []string{"Insert", "Push", "Replace"}[r.Intn(3)]))
	}
	for i, n := 0, 1+r.Intn(4); i < n; i++ {
		name := names[r.Intn(len(names))]
		if name == "SetReadOnly" || name == "ReadOnly" || name == "SetErr" || name == "Init" || name == "SetID" {
			// the documented exceptions are exercised separately (SetID: `_random` would be nondeterministic; covered with fixed strings below)
			name = []string{"Free", "Push", "Reset", "SetFIFO", "SetLogger", "SetID"}[r.Intn(6)]
			if kind == "cond" {
				name = []string{"Free", "SetLogger", "SetKeyword", "SetExpression", "SetID"}[r.Intn(5)]
			}
		}
		calls = append(calls, genCall(r, kind, name))
	}
	calls = append(calls, "SetReadOnly ?0")
	if kind == "stack" {
		calls = append(calls, "Push i1")
	}
	lit := v.String()
	if r.Intn(3) == 0 {
		lit += "+d" // created while the application's loggers (not discarding) and log levels were the defaults: frozen with those
	}
	return "frozen | " + lit + " | " + strings.Join(calls, " ; ")
}

func genInert(r *rand.Rand, id string, tier string) string {
	recvs := []string{"zero-stack", "freed-stack", "zero-cond", "freed-cond"}
	recv := recvs[r.Intn(4)]
	kind := "stack"
	if strings.HasSuffix(recv, "cond") {
		kind = "cond"
	}
	if r.Intn(3) == 0 {
		recv += "+d" // with package-level defaults set by the application (see runSweep)
	}
	names := methodNames(kind)
	var calls []string
	for i, n := 0, 1+r.Intn(4); i < n; i++ {
		name := names[r.Intn(len(names))]
		if name == "Marshal" || name == "Init" {
			continue
		}
		calls = append(calls, genCall(r, kind, name))
	}
	if len(calls) == 0 {
		calls = append(calls, "IsInit")
	}
	return "inert | " + recv + " | " + strings.Join(calls, " ; ")
}

// initonly (C17): every exported method on an Init()-only Condition, with arguments that include other incomplete
// Conditions (an operator but no keyword, nothing at all, ...): it must return normally
func genInitOnly(r *rand.Rand, id string, tier string) string {
	names := methodNames("cond")
	var calls []string
	for i, n := 0, 1+r.Intn(4); i < n; i++ {
		name := names[r.Intn(len(names))]
		if r.Intn(3) == 0 {
			name = []string{"IsEqual", "String", "Valid", "SetExpression", "SetKeyword", "SetOperator"}[r.Intn(6)]
		}
		calls = append(calls, genCall(r, "cond", name))
	}
	return "initonly | init-cond | " + strings.Join(calls, " ; ")
}

func genQueries(r *rand.Rand, id string, tier string) string {
	if r.Intn(20) == 0 {
		// a long list of Conditions compared with an equal copy and with a copy that differs at two positions (in two
		// different ways): every caller gets the answer about the first difference, every time
		st := V{T: 'K', Form: "n", Cfg: Cfg{Kind: 4}}
		for i, n := 0, 48+r.Intn(40); i < n; i++ {
			st.Xs = append(st.Xs, V{T: 'C', Form: "n", Kw: fmt.Sprintf("k%d", i), Op: "c1", Xs: []V{{T: 'i', I: int64(i)}}})
		}
		if r.Intn(3) == 0 {
			st.Cfg.Opt |= fRO
		}
		cp := cloneV(st)
		cp.Cfg.Opt &^= fRO
		p, q := r.Intn(len(cp.Xs)), r.Intn(len(cp.Xs))
		cp.Xs[p].Kw += "x"
		cp.Xs[q].Op = "c2"
		eq := cloneV(st)
		eq.Cfg.Opt &^= fRO
		return "queries | " + st.String() + " | IsEqual " + cp.String() + " ; IsEqual " + eq.String() + " ; IsEqual " + cp.String() + " ; Len"
	}
	recv, kind := genSweepRecv(r)
	if r.Intn(4) == 0 {
		v, _ := parseV(strings.Fields(recv))
		v.Cfg.Opt |= fRO
		recv = v.String()
	}
	var qs []string
	for _, n := range methodNames(kind) {
		if !declaredMutators[n] {
			qs = append(qs, n)
		}
	}
	// the queries the property names, half of the time
	named := []string{"String", "Index", "Front", "Back", "Traverse", "Len", "Cap", "Avail", "Kind", "Valid", "IsEqual", "IsEqual", "Unmarshal", "Less", "IsNesting", "CanNest"}
	if kind == "cond" {
		named = []string{"String", "Valid", "IsEqual", "IsEqual", "Unmarshal", "Len", "IsNesting", "CanNest", "Keyword", "Operator", "Expression"}
	}
	var calls []string
	for i, n := 0, 1+r.Intn(5); i < n; i++ {
		name := qs[r.Intn(len(qs))]
		if r.Intn(2) == 0 {
			name = named[r.Intn(len(named))]
		}
		if name == "IsEqual" && r.Intn(4) != 0 {
			// against an independently built equal copy, or against a copy that differs somewhere (the answer is an error then,
			// for every goroutine that asks)
			v, _ := parseV(strings.Fields(recv))
			v.Cfg.Opt &^= fRO
			arg := v
			if r.Intn(3) != 0 {
				func() {
					defer func() { recover() }()
					arg, _ = mutate(r, v)
				}()
			}
			calls = append(calls, "IsEqual "+arg.String())
			continue
		}
		calls = append(calls, genCall(r, kind, name))
	}
	return "queries | " + recv + " | " + strings.Join(calls, " ; ")
}

// nestedro (C09): a read-only Stack (with nil holes) nested in a writable parent — directly or as a Condition's
// expression next to another nested Stack; calls on the PARENT must leave the read-only instance as it was.
// (Reveal is excluded: it rewrites nested wrappers in place by design, see DESIGN section 9.)
func genNestedRO(r *rand.Rand, id string, tier string) string {
	nextLeaf = 0
	child := V{T: 'K', Form: "n", Cfg: Cfg{Kind: kinds(r), Opt: fRO}}
	for i, n := 0, 2+r.Intn(6); i < n; i++ {
		if r.Intn(3) == 0 {
			child.Xs = append(child.Xs, V{T: 'N'})
		} else {
			nextLeaf++
			child.Xs = append(child.Xs, V{T: 'i', I: int64(nextLeaf)})
		}
	}
	parent := V{T: 'K', Form: "n", Cfg: Cfg{Kind: kinds(r)}}
	sib := V{T: 'K', Form: "n", Cfg: Cfg{Kind: kinds(r)}, Xs: []V{{T: 'i', I: 90}, {T: 'N'}, {T: 'i', I: 91}}}
	if r.Intn(2) == 0 {
		parent.Xs = []V{{T: 'i', I: 80}, child, {T: 'N'}, sib}
	} else {
		parent.Xs = []V{sib, {T: 'C', Form: "n", Kw: "k", Op: "c1", Xs: []V{child}}, {T: 'N'}, {T: 'i', I: 81}}
	}
	names := []string{"Defrag", "Defrag", "Defrag", "Reverse", "Swap", "Pop", "Remove", "Reset", "Push", "Insert", "Replace", "SetFIFO", "IsEqual", "String", "Unmarshal", "Transfer"}
	var calls []string
	for i, n := 0, 1+r.Intn(3); i < n; i++ {
		calls = append(calls, genCall(r, "stack", names[r.Intn(len(names))]))
	}
	return "nestedro | " + parent.String() + " | " + strings.Join(calls, " ; ")
}

// ---------------------------------------------------------------------------
// stream `freepol` (C17): "Free makes the handle zero unless the instance is read-only" - whatever the instance is busy with.
// A PushPolicy frees a COPY of the handle of its own stack while Push is running (with the mutex enabled Push holds the
// stack's lock at that moment); the copy must become zero without an error, the original goes on as if nothing had happened.
//
//	<stack literal> | <values>       ->   free=z<IsZero>e<error> init=<original still initialised> len=<Len afterwards>

func init() {
	streams["freepol"] = &stream{gen: genFreePol, run: runFreePol}
}

func genFreePol(r *rand.Rand, id string, tier string) string {
	c := Cfg{Kind: kinds(r), Mtx: r.Intn(3) != 0, Fifo: r.Intn(3) == 0}
	if r.Intn(2) == 0 {
		c.Cap = 1 + r.Intn(5)
	}
	n0 := r.Intn(4)
	if c.Cap != 0 && n0 > c.Cap {
		n0 = c.Cap
	}
	st := V{T: 'K', Form: "n", Cfg: c}
	for i := 0; i < n0; i++ {
		st.Xs = append(st.Xs, V{T: 'i', I: int64(i + 1)})
	}
	var vs []string
	for i, n := 0, r.Intn(4); i < n; i++ {
		vs = append(vs, V{T: 'i', I: int64(10 + i)}.String())
	}
	return st.String() + " | " + strings.Join(vs, " ")
}

func runFreePol(payload string) string {
	parts := strings.SplitN(payload, " | ", 2)
	v, _ := parseV(strings.Fields(parts[0]))
	s := BuildStack(v)
	rec := "-"
	s.SetPushPolicy(func(x ...any) error {
		h := s // a copy of the handle: the same instance
		// a query is a query, whoever holds the lock: Traverse(i) is Index(i), here as anywhere
		agree := true
		for i := -1; i <= 2; i++ {
			x1, ok1 := h.Traverse(i)
			x2, ok2 := h.Index(i)
			if ok1 != ok2 || Short(x1) != Short(x2) {
				agree = false
			}
		}
		err := h.Free()
		rec = "z" + b01(h.IsZero()) + "e" + b01(err != nil) + "t" + b01(agree)
		return nil
	})
	var vals []any
	if len(parts) > 1 {
		for _, t := range strings.Fields(parts[1]) {
			x, _ := parseV([]string{t})
			vals = append(vals, Build(x))
		}
	}
	s.Push(vals...)
	return fmt.Sprintf("free=%s init=%s len=%d", rec, b01(s.IsInit()), s.Len())
}

// ---------------------------------------------------------------------------
// stream `sealpol` (C13): "WHILE the no-nesting option is set, Push ... skips every [Stack]" - value by value. The stack's own
// PushPolicy switches the option on ("seal") or off ("unseal") when it is offered that marker, in the middle of a batch: a Stack
// offered after "seal" is skipped, one offered after "unseal" is stored, and CanNest says what the option says at the end.
//
//	<stack literal (no mutex)> | <values>      ->   L<len> [<elements>] N<CanNest>

func init() {
	streams["sealpol"] = &stream{gen: genSealPol, run: runSealPol}
}

func genSealPol(r *rand.Rand, id string, tier string) string {
	c := Cfg{Kind: kinds(r)}
	if r.Intn(3) == 0 {
		c.Cap = 2 + r.Intn(5)
	}
	if r.Intn(3) == 0 {
		c.Opt |= fNNest
	}
	st := V{T: 'K', Form: "n", Cfg: c}
	if r.Intn(2) == 0 {
		st.Xs = append(st.Xs, V{T: 'i', I: 1})
	}
	var vs []string
	for i, n := 0, 1+r.Intn(7); i < n; i++ {
		switch r.Intn(6) {
		case 0:
			vs = append(vs, V{T: 's', S: "seal"}.String())
		case 1:
			vs = append(vs, V{T: 's', S: "unseal"}.String())
		case 2, 3:
			vs = append(vs, V{T: 'K', Form: []string{"n", "a", "as", "p"}[r.Intn(4)], Cfg: Cfg{Kind: kinds(r)}, Xs: []V{{T: 'i', I: int64(i)}}}.String())
		default:
			vs = append(vs, V{T: 'i', I: int64(10 + i)}.String())
		}
	}
	return st.String() + " | " + strings.Join(vs, " ")
}

func runSealPol(payload string) string {
	parts := strings.SplitN(payload, " | ", 2)
	v, _ := parseV(strings.Fields(parts[0]))
	s := BuildStack(v)
	s.SetPushPolicy(func(x ...any) error {
		if len(x) > 0 {
			switch x[0] {
			case "seal":
				s.SetNoNesting(true)
			case "unseal":
				s.SetNoNesting(false)
			}
		}
		return nil
	})
	var vals []any
	toks := strings.Fields(parts[1])
	for len(toks) > 0 {
		var x V
		x, toks = parseV(toks)
		vals = append(vals, Build(x))
	}
	s.Push(vals...)
	var el []string
	for i := 0; i < s.Len(); i++ {
		e, _ := s.Index(i)
		el = append(el, Short(e))
	}
	return fmt.Sprintf("L%d [%s] N%s", s.Len(), strings.Join(el, " "), b01(s.CanNest()))
}
