package main

// Value literals shared with the Lean driver (see DESIGN.md Appendix A).
//
//	V := N | i<dec> | s<hex> | b0 | b1 | n<ty>:<hex> | g<id>:<hex>:<z> | o<cls>:<id>
//	   | K <form> <cfg> [ V* ]            stack
//	   | C <form> <cfg> <kwhex> <op> V    condition
//	   | Z <form> | Y <form>              zero-valued Stack / Condition
//	   | A [ V* ]                         []any
//	   | <EV literal>                     a leaf described as reflect sees it (see equal.go, stream eqpair):
//	       p<ty>:<hex>:<nan> | t<ty>:<hex> | u<0|1>:<n> | z<ty> | P <ty> E | Q <a|s> <ety> <cap> [ E* ]
//	       | M <ty> [ (E E)* ] | T <ty> [ (<namehex>:<e|p>:<a|n> E)* ] | f<ty>:<id> | c<ty>:<id> | I | J E
//
// <cfg> is a comma-separated list of non-default fields, `-` when empty.
// <op> is `-` (nil), `c<code>` (ComparisonOperator) or `u<id>:<strhex>:<ctxhex>`.

import (
	"encoding/hex"
	"errors"
	"fmt"
	"reflect"
	"sort"
	"strconv"
	"strings"
	"sync"
	"sync/atomic"

	stackage "github.com/JesseCoretta/go-stackage"
)

type Cfg struct {
	Kind int // 1 and 2 or 3 not 4 list 6 basic (5 = condition)
	Cap  int // user capacity (0 = none)
	Opt  int
	Fifo bool
	Sym  string
	Ljc  string
	Enc  [][]string
	ID   string
	Cat  string
	Err  int // 0 none, else error class
	Mtx  bool
	Ppf  int // policy ids, 0 = none
	Vpf  int
	Rpf  int
	Eqf  int
	Umf  int
	Lss  int // 1: a LessFunc of the caller's, installed before the content is pushed
	Maf  int
	Evl  int
}

type V struct {
	T    byte // N i s b n g o K C Z Y A
	I    int64
	S    string
	B    bool
	Ty   int
	ID   int
	Form string // n a as p
	Cfg  Cfg
	Xs   []V
	Kw   string
	Op   string
	E    *EVv // T == 'E': a leaf of the reflect universe (equal.go)
}

func hx(s string) string {
	if s == "" {
		return "-"
	}
	return hex.EncodeToString([]byte(s))
}

func unhx(s string) string {
	if s == "-" {
		return ""
	}
	b, err := hex.DecodeString(s)
	if err != nil {
		panic("bad hex " + s)
	}
	return string(b)
}

func (c Cfg) String() string {
	var p []string
	add := func(k string, v string) { p = append(p, k+"="+v) }
	if c.Kind != 0 {
		add("k", strconv.Itoa(c.Kind))
	}
	if c.Cap != 0 {
		add("c", strconv.Itoa(c.Cap))
	}
	if c.Opt != 0 {
		add("o", strconv.Itoa(c.Opt))
	}
	if c.Fifo {
		add("f", "1")
	}
	if c.Sym != "" {
		add("sym", hx(c.Sym))
	}
	if c.Ljc != "" {
		add("d", hx(c.Ljc))
	}
	if len(c.Enc) > 0 {
		var es []string
		for _, e := range c.Enc {
			var hs []string
			for _, x := range e {
				hs = append(hs, hx(x))
			}
			es = append(es, strings.Join(hs, "/"))
		}
		add("e", strings.Join(es, "|"))
	}
	if c.ID != "" {
		add("id", hx(c.ID))
	}
	if c.Cat != "" {
		add("cat", hx(c.Cat))
	}
	if c.Err != 0 {
		add("err", strconv.Itoa(c.Err))
	}
	if c.Mtx {
		add("mtx", "1")
	}
	for _, kv := range []struct {
		k string
		v int
	}{{"ppf", c.Ppf}, {"vpf", c.Vpf}, {"rpf", c.Rpf}, {"eqf", c.Eqf}, {"umf", c.Umf}, {"lss", c.Lss}, {"maf", c.Maf}, {"evl", c.Evl}} {
		if kv.v != 0 {
			add(kv.k, strconv.Itoa(kv.v))
		}
	}
	if len(p) == 0 {
		return "-"
	}
	return strings.Join(p, ",")
}

func parseCfg(s string) (c Cfg) {
	if s == "-" {
		return
	}
	for _, kv := range strings.Split(s, ",") {
		i := strings.IndexByte(kv, '=')
		k, v := kv[:i], kv[i+1:]
		n, _ := strconv.Atoi(v)
		switch k {
		case "k":
			c.Kind = n
		case "c":
			c.Cap = n
		case "o":
			c.Opt = n
		case "f":
			c.Fifo = n == 1
		case "sym":
			c.Sym = unhx(v)
		case "d":
			c.Ljc = unhx(v)
		case "e":
			for _, e := range strings.Split(v, "|") {
				var pair []string
				for _, h := range strings.Split(e, "/") {
					pair = append(pair, unhx(h))
				}
				c.Enc = append(c.Enc, pair)
			}
		case "id":
			c.ID = unhx(v)
		case "cat":
			c.Cat = unhx(v)
		case "err":
			c.Err = n
		case "mtx":
			c.Mtx = n == 1
		case "ppf":
			c.Ppf = n
		case "vpf":
			c.Vpf = n
		case "rpf":
			c.Rpf = n
		case "eqf":
			c.Eqf = n
		case "umf":
			c.Umf = n
		case "lss":
			c.Lss = n
		case "maf":
			c.Maf = n
		case "evl":
			c.Evl = n
		default:
			panic("bad cfg key " + k)
		}
	}
	return
}

func (v V) String() string {
	switch v.T {
	case 'N':
		return "N"
	case 'i':
		return "i" + strconv.FormatInt(v.I, 10)
	case 's':
		return "s" + hx(v.S)
	case 'b':
		if v.B {
			return "b1"
		}
		return "b0"
	case 'n':
		return fmt.Sprintf("n%d:%s", v.Ty, hx(v.S))
	case 'g':
		z := 0
		if v.B {
			z = 1
		}
		return fmt.Sprintf("g%d:%s:%d", v.ID, hx(v.S), z)
	case 'o':
		return fmt.Sprintf("o%d:%d", v.Ty, v.ID)
	case 'O':
		return "O" + v.Op
	case 'K':
		var xs []string
		for _, x := range v.Xs {
			xs = append(xs, x.String())
		}
		return strings.TrimSpace(fmt.Sprintf("K %s %s [ %s", v.Form, v.Cfg, strings.Join(xs, " "))) + " ]"
	case 'C':
		return fmt.Sprintf("C %s %s %s %s %s", v.Form, v.Cfg, hx(v.Kw), v.Op, v.Xs[0])
	case 'Z', 'Y':
		return string(v.T) + " " + v.Form
	case 'A':
		var xs []string
		for _, x := range v.Xs {
			xs = append(xs, x.String())
		}
		return strings.TrimSpace("A [ "+strings.Join(xs, " ")) + " ]"
	case 'E':
		return v.E.String()
	}
	panic("bad V")
}

// parseV consumes one value from toks
func parseV(toks []string) (V, []string) {
	t := toks[0]
	switch t[0] {
	case 'N':
		return V{T: 'N'}, toks[1:]
	case 'i':
		n, err := strconv.ParseInt(t[1:], 10, 64)
		if err != nil {
			panic(err)
		}
		return V{T: 'i', I: n}, toks[1:]
	case 's':
		return V{T: 's', S: unhx(t[1:])}, toks[1:]
	case 'b':
		return V{T: 'b', B: t == "b1"}, toks[1:]
	case 'n':
		p := strings.SplitN(t[1:], ":", 2)
		ty, _ := strconv.Atoi(p[0])
		return V{T: 'n', Ty: ty, S: unhx(p[1])}, toks[1:]
	case 'g':
		p := strings.SplitN(t[1:], ":", 3)
		id, _ := strconv.Atoi(p[0])
		return V{T: 'g', ID: id, S: unhx(p[1]), B: p[2] == "1"}, toks[1:]
	case 'O':
		return V{T: 'O', Op: t[1:]}, toks[1:]
	case 'o':
		p := strings.SplitN(t[1:], ":", 2)
		cls, _ := strconv.Atoi(p[0])
		id, _ := strconv.Atoi(p[1])
		return V{T: 'o', Ty: cls, ID: id}, toks[1:]
	case 'K':
		v := V{T: 'K', Form: toks[1], Cfg: parseCfg(toks[2])}
		if toks[3] != "[" {
			panic("expected [")
		}
		rest := toks[4:]
		for rest[0] != "]" {
			var x V
			x, rest = parseV(rest)
			v.Xs = append(v.Xs, x)
		}
		return v, rest[1:]
	case 'C':
		v := V{T: 'C', Form: toks[1], Cfg: parseCfg(toks[2]), Kw: unhx(toks[3]), Op: toks[4]}
		x, rest := parseV(toks[5:])
		v.Xs = []V{x}
		return v, rest
	case 'Z', 'Y':
		return V{T: t[0], Form: toks[1]}, toks[2:]
	case 'A':
		v := V{T: 'A'}
		rest := toks[2:]
		for rest[0] != "]" {
			var x V
			x, rest = parseV(rest)
			v.Xs = append(v.Xs, x)
		}
		return v, rest[1:]
	case 'p', 't', 'u', 'z', 'P', 'Q', 'M', 'T', 'f', 'c', 'I', 'J':
		e, rest := parseEV(toks)
		return V{T: 'E', E: e}, rest
	}
	panic("bad value token " + t)
}

// ---------------------------------------------------------------------------
// Go counterparts

type AStack stackage.Stack    // alias, no methods
type SStack stackage.Stack    // alias with its own String
type ACond stackage.Condition // alias, no methods
type SCond stackage.Condition // alias with its own String

func (r SStack) String() string { return "<<SStack.String>>" } // must never show up: aliases are converted first
func (r SCond) String() string  { return "<<SCond.String>>" }

// Strg is a non-primitive value with a String method
type Strg struct {
	ID int
	S  string
}

func (r Strg) String() string { return r.S }

// Opq values: anything else, by identity
type Opq struct {
	Cls, ID int
	_       func() // makes it non-comparable by accident-free identity only through fields
}

// user-defined operator
type UOp struct {
	ID       int
	Str, Ctx string
}

func (r UOp) String() string  { return r.Str }
func (r UOp) Context() string { return r.Ctx }

// LOp: a user-defined operator whose type is not comparable (slice-backed): [text, context]
type LOp []string

func (r LOp) String() string  { return r[0] }
func (r LOp) Context() string { return r[1] }

var errClasses = map[int]error{}

// storeMu guards the lazily filled identity stores of the harness (errClasses, opqStore, chanStore, auxStore):
// the parallel-query run (parq) builds arguments from 16 goroutines
var storeMu sync.Mutex

func errOf(n int) error {
	if n == 0 {
		return nil
	}
	storeMu.Lock()
	defer storeMu.Unlock()
	if e, ok := errClasses[n]; ok {
		return e
	}
	e := errors.New("E" + strconv.Itoa(n))
	errClasses[n] = e
	return e
}

func errClass(e error) string {
	if e == nil {
		return "-"
	}
	s := e.Error()
	if len(s) > 1 && s[0] == 'E' {
		if _, err := strconv.Atoi(s[1:]); err == nil {
			return s
		}
	}
	return "E?"
}

// pushPolicy ids: 1 = reject nil, 2 = reject strings, 3 = reject ints > 5, 4 = accept all, 5 = reject everything
func pushPolicy(id int) stackage.PushPolicy {
	if id == 0 {
		return nil
	}
	return func(x ...any) error {
		var v any
		if len(x) > 0 {
			v = x[0]
		}
		if polRejects(id, v) {
			return errOf(100 + id)
		}
		return nil
	}
}

// unmarshalerFor ids (shared with the Lean driver's `umfResult`): every id returns the slice ["U", id]; id 3 returns it
// together with an error (class 204). 0 = no closure.
func unmarshalerFor(id int) stackage.Unmarshaler {
	if id == 0 {
		return nil
	}
	return func(...any) ([]any, error) {
		if id == 3 {
			return []any{"U", id}, errOf(204)
		}
		return []any{"U", id}, nil
	}
}

func polRejects(id int, v any) bool {
	switch id {
	case 1:
		return v == nil
	case 2:
		_, ok := v.(string)
		return ok
	case 3:
		n, ok := v.(int)
		return ok && n > 5
	case 5:
		return true
	case 6: // no Stacks, in whatever form
		_, ok := stackage.ConvertStack(v)
		return ok
	case 7: // no Conditions
		_, ok := stackage.ConvertCondition(v)
		return ok
	}
	return false
}

// ZVOp / ZPOp: operator types used as typed nil pointers (`z`: methods with value receivers, so that calling
// them through the nil pointer panics; `y`: pointer receivers, callable on nil). Neither may be stored as an operator.
type ZVOp struct{ s string }

func (o ZVOp) String() string  { return "zv" + o.s }
func (o ZVOp) Context() string { return "zctx" }

type ZPOp struct{ s string }

// ZFOp: a func-kind operator type; ZFOp(nil) is a typed nil whose methods call the nil func
type ZFOp func() string

func (f ZFOp) String() string  { return f() }
func (f ZFOp) Context() string { return "zctx" }

func (o *ZPOp) String() string  { return "zp" }
func (o *ZPOp) Context() string { return "zctx" }

func opOf(s string) stackage.Operator {
	switch {
	case s == "-":
		return nil
	case s == "z":
		return (*ZVOp)(nil)
	case s == "y":
		return (*ZPOp)(nil)
	case s == "w":
		return ZFOp(nil)
	case s[0] == 'c':
		n, _ := strconv.Atoi(s[1:])
		return stackage.ComparisonOperator(n)
	case s[0] == 'u':
		p := strings.SplitN(s[1:], ":", 3)
		id, _ := strconv.Atoi(p[0])
		return UOp{ID: id, Str: unhx(p[1]), Ctx: unhx(p[2])}
	case s[0] == 'v':
		p := strings.SplitN(s[1:], ":", 3)
		return LOp{unhx(p[1]), unhx(p[2]), p[0]}
	}
	panic("bad op " + s)
}

func opStr(o stackage.Operator) string {
	switch tv := o.(type) {
	case nil:
		return "-"
	case stackage.ComparisonOperator:
		return "c" + strconv.Itoa(int(tv))
	case UOp:
		return fmt.Sprintf("u%d:%s:%s", tv.ID, hx(tv.Str), hx(tv.Ctx))
	case LOp:
		return fmt.Sprintf("v%s:%s:%s", tv[2], hx(tv[0]), hx(tv[1]))
	case *ZVOp:
		return "z"
	case *ZPOp:
		return "y"
	case ZFOp:
		return "w"
	}
	return "u?"
}

const (
	fParen = 1
	fFold  = 2
	fNoPad = 4
	fLOnce = 8
	fNeg   = 16
	fFwd   = 32
	fJoin  = 64
	fRO    = 128
	fNNest = 256
)

// ctorCalls alternates the three spellings of "no capacity": no argument, an explicit 0, a negative number
var ctorCalls int64

func newStack(kind, cap int) stackage.Stack {
	var c []int
	if cap != 0 {
		c = []int{cap}
	} else {
		n := atomic.AddInt64(&ctorCalls, 1) // Build is also called from the 16 goroutines of the parallel-query run
		switch n % 3 {
		case 1:
			c = []int{0}
		case 2:
			c = []int{-1 - int(n%5)}
		}
	}
	switch kind {
	case 1:
		return stackage.And(c...)
	case 2:
		return stackage.Or(c...)
	case 3:
		return stackage.Not(c...)
	case 4:
		return stackage.List(c...)
	case 6:
		return stackage.Basic(c...)
	}
	panic("bad kind")
}

// applyCfg sets everything but read-only / no-nesting / push policy (done last by the caller)
func applyStackCfg(s stackage.Stack, c Cfg) {
	if c.Opt&fParen != 0 {
		s.SetParen(true)
	}
	if c.Opt&fFold != 0 {
		s.SetFold(true)
	}
	if c.Opt&fNoPad != 0 {
		s.SetNoPadding(true)
	}
	if c.Opt&fLOnce != 0 {
		s.SetLeadOnce(true)
	}
	if c.Opt&fNeg != 0 {
		s.SetNegativeIndices(true)
	}
	if c.Opt&fFwd != 0 {
		s.SetForwardIndices(true)
	}
	if c.Fifo {
		s.SetFIFO(true)
	}
	if c.Sym != "" {
		s.SetSymbol(c.Sym)
	}
	if c.Ljc != "" {
		s.SetDelimiter(c.Ljc)
	}
	for _, e := range c.Enc {
		s.SetEncap(append([]string{}, e...))
	}
	if c.ID != "" {
		s.SetID(c.ID)
	}
	if c.Cat != "" {
		s.SetCategory(c.Cat)
	}
	if c.Mtx {
		s.SetMutex()
	}
	if c.Err != 0 {
		s.SetErr(errOf(c.Err))
	}
}

func wrapStack(s stackage.Stack, form string) any {
	switch form {
	case "n":
		return s
	case "a":
		return AStack(s)
	case "as":
		return SStack(s)
	case "p":
		a := AStack(s)
		return &a
	}
	panic("bad form " + form)
}

func wrapCond(c stackage.Condition, form string) any {
	switch form {
	case "n":
		return c
	case "a":
		return ACond(c)
	case "as":
		return SCond(c)
	case "p":
		a := ACond(c)
		return &a
	}
	panic("bad form " + form)
}

var opqStore = map[[2]int]any{}

// opqUse: when a key was last asked for. Several keys may hold equal values (typed nil pointers carry no identity):
// naming a value back prefers the key most recently used, i.e. the literal of the case at hand.
var opqUse = map[[2]int]int{}
var opqClock int

func opqOf(cls, id int) any {
	storeMu.Lock()
	defer storeMu.Unlock()
	k := [2]int{cls, id}
	opqClock++
	opqUse[k] = opqClock
	if v, ok := opqStore[k]; ok {
		return v
	}
	var v any
	switch cls {
	case 1:
		v = func() int { return id }
	case 2:
		v = make(chan int)
	case 3:
		v = struct{ A, b int }{id, id}
	case 4:
		v = map[string]int{"k": id}
	case 5: // typed nil pointers; they carry no identity, so each id stands for its own pointer type
		switch id {
		case 2:
			v = (*AStack)(nil)
		case 3:
			v = (*ACond)(nil)
		default:
			v = (*int)(nil)
		}
	case 6:
		v = []int{id}
	case 20: // C20: nil pointer to the native Stack type (satisfies stackage.Interface)
		v = (*stackage.Stack)(nil)
	case 21: // C20: nil pointer to the native Condition type
		v = (*stackage.Condition)(nil)
	case 22: // non-nil pointer to a zero-valued native Stack (also what a freed *Stack looks like)
		v = &stackage.Stack{}
	case 23: // non-nil pointer to a zero-valued native Condition
		v = &stackage.Condition{}
	case 24: // non-nil pointer to a nil *Stack
		v = new(*stackage.Stack)
	case 25: // non-nil pointer to a nil **int
		v = new(**int)
	case 26: // non-nil pointer to a nil *Condition
		v = new(*stackage.Condition)
	case 27: // typed nil pointer to a type whose String method has a value receiver
		v = (*Strg)(nil)
	case 28: // zero-valued struct whose String method is promoted from an embedded nil interface
		v = struct{ fmt.Stringer }{}
	case 29: // zero-valued struct whose String method is promoted from an embedded nil pointer
		v = struct{ *Strg }{}
	case 30: // a value of a declared string type without methods (a string by kind, not by type); id 2: the empty one
		if id == 2 {
			v = MyStr("")
		} else {
			v = MyStr("named")
		}
	case 33: // a value of an unrelated struct type that EMBEDS an initialised Stack (its methods are promoted): not a Stack, not an alias
		v = struct {
			stackage.Stack
			Label string
		}{stackage.And().Push("in", "side"), "l"}
	case 34: // ... and a pointer to one
		v = &struct {
			stackage.Stack
			Label string
		}{stackage.Or().Push("in", "side"), "p"}
	case 35: // zero-valued structs that satisfy stackage.Interface through an embedded NIL pointer (1: *Stack, 2: *Condition), 3: a pointer to one
		switch id {
		case 1:
			v = struct{ *stackage.Stack }{}
		case 2:
			v = struct{ *stackage.Condition }{}
		default:
			v = &struct{ *stackage.Stack }{}
		}
	case 32: // a pointer to an int holding id: equal to the int id as far as IsEqual is concerned, another value all the same
		p := new(int)
		*p = id
		v = p
	case 31: // a slice of strings (a multi-valued expression, as a caller might hold one): the slice stays the caller's
		v = []string{"a", "b c", fmt.Sprint("v", id)}
	default:
		v = &Opq{Cls: cls, ID: id}
	}
	opqStore[k] = v
	return v
}

// Build constructs the real Go value
func Build(v V) any {
	switch v.T {
	case 'N':
		return nil
	case 'i':
		return int(v.I)
	case 's':
		return v.S
	case 'b':
		return v.B
	case 'n':
		switch v.Ty {
		case 1:
			f, _ := strconv.ParseFloat(v.S, 64)
			return f
		case 2:
			n, _ := strconv.ParseUint(v.S, 10, 64)
			return uint(n)
		case 3:
			n, _ := strconv.ParseInt(v.S, 10, 8)
			return int8(n)
		}
		panic("bad n type")
	case 'g':
		if v.B {
			return Strg{}
		}
		return Strg{ID: v.ID, S: v.S}
	case 'o':
		return opqOf(v.Ty, v.ID)
	case 'O':
		return opOf(v.Op)
	case 'K':
		if shareCache != nil && v.Form == "n" {
			// identical sub-literals are built once and the one instance is used at every position (object sharing:
			// what a tree means does not depend on it)
			key := v.String()
			if s, ok := shareCache[key]; ok {
				return s
			}
			s := BuildStack(v)
			shareCache[key] = s
			return s
		}
		return wrapStack(BuildStack(v), v.Form)
	case 'C':
		return wrapCond(BuildCond(v), v.Form)
	case 'Z':
		return wrapStack(stackage.Stack{}, v.Form)
	case 'Y':
		return wrapCond(stackage.Condition{}, v.Form)
	case 'A':
		var xs []any = []any{}
		for _, x := range v.Xs {
			xs = append(xs, Build(x))
		}
		return xs
	case 'E':
		return buildEV(v.E).Interface()
	}
	panic("bad V")
}

// shareCache, when non-nil, makes Build share one instance among identical native Stack sub-literals (stream roundtrip)
var shareCache map[string]stackage.Stack

func BuildStack(v V) stackage.Stack {
	s := newStack(v.Cfg.Kind, v.Cfg.Cap)
	if v.Cfg.Lss != 0 {
		// a comparison function of the caller's, installed while the stack is still empty (the content comes afterwards)
		s.SetLessFunc(func(i, j int) bool { return i > j })
	}
	for _, x := range v.Xs {
		s.Push(Build(x))
	}
	applyStackCfg(s, v.Cfg)
	if v.Cfg.Ppf != 0 {
		s.SetPushPolicy(pushPolicy(v.Cfg.Ppf))
	}
	if v.Cfg.Eqf != 0 {
		s.SetEqualityPolicy(eqPolicy(v.Cfg.Eqf))
	}
	if v.Cfg.Vpf != 0 {
		s.SetValidityPolicy(closureFor(reflect.TypeOf(stackage.ValidityPolicy(nil)), v.Cfg.Vpf).Interface().(stackage.ValidityPolicy))
	}
	if v.Cfg.Rpf != 0 {
		s.SetPresentationPolicy(closureFor(reflect.TypeOf(stackage.PresentationPolicy(nil)), v.Cfg.Rpf).Interface().(stackage.PresentationPolicy))
	}
	if v.Cfg.Umf != 0 {
		s.SetUnmarshaler(unmarshalerFor(v.Cfg.Umf))
	}
	if v.Cfg.Opt&fNNest != 0 {
		s.SetNoNesting(true)
	}
	if v.Cfg.Opt&fRO != 0 {
		s.SetReadOnly(true)
		s.SetReadOnly(true) // asking twice is asking once
	}
	return s
}

func BuildCond(v V) stackage.Condition {
	var c stackage.Condition
	c.Init()
	c.SetKeyword(v.Kw)
	if o := opOf(v.Op); o != nil {
		c.SetOperator(o)
	}
	if ex := Build(v.Xs[0]); ex != nil {
		c.SetExpression(ex)
	}
	cf := v.Cfg
	if cf.Opt&fParen != 0 {
		c.SetParen(true)
	}
	if cf.Opt&fNoPad != 0 {
		c.SetNoPadding(true)
	}
	for _, e := range cf.Enc {
		c.SetEncap(append([]string{}, e...))
	}
	if cf.ID != "" {
		c.SetID(cf.ID)
	}
	if cf.Cat != "" {
		c.SetCategory(cf.Cat)
	}
	if cf.Opt&fNNest != 0 {
		c.SetNoNesting(true)
	}
	if cf.Eqf != 0 {
		c.SetEqualityPolicy(eqPolicy(cf.Eqf))
	}
	if cf.Vpf != 0 {
		c.SetValidityPolicy(closureFor(reflect.TypeOf(stackage.ValidityPolicy(nil)), cf.Vpf).Interface().(stackage.ValidityPolicy))
	}
	if cf.Rpf != 0 {
		c.SetPresentationPolicy(closureFor(reflect.TypeOf(stackage.PresentationPolicy(nil)), cf.Rpf).Interface().(stackage.PresentationPolicy))
	}
	if cf.Umf != 0 {
		c.SetUnmarshaler(unmarshalerFor(cf.Umf))
	}
	if cf.Err != 0 {
		c.SetErr(errOf(cf.Err))
	}
	if cf.Opt&fRO != 0 {
		c.SetReadOnly(true)
		c.SetReadOnly(true) // asking twice is asking once
	}
	return c
}

// Short describes an observed element in the short form used by list observations:
// leaves as literals, nested stacks as K<kind>#<len>, conditions as C#<kwhex>.
func Short(x any) string {
	switch tv := x.(type) {
	case nil:
		return "N"
	case int:
		return "i" + strconv.Itoa(tv)
	case string:
		return "s" + hx(tv)
	case bool:
		if tv {
			return "b1"
		}
		return "b0"
	case float64:
		return "n1:" + hx(strconv.FormatFloat(tv, 'g', -1, 64))
	case uint:
		return "n2:" + hx(strconv.FormatUint(uint64(tv), 10))
	case int8:
		return "n3:" + hx(strconv.Itoa(int(tv)))
	case Strg:
		z := 0
		if tv == (Strg{}) {
			z = 1
		}
		return fmt.Sprintf("g%d:%s:%d", tv.ID, hx(tv.S), z)
	case []any:
		return "A#" + strconv.Itoa(len(tv))
	}
	if s, ok := stackage.ConvertStack(x); ok {
		return fmt.Sprintf("K%d#%d", kindCode(s.Kind()), s.Len())
	}
	if c, ok := stackage.ConvertCondition(x); ok {
		return "C#" + hx(c.Keyword())
	}
	if k, ok := opqKeyOf(x); ok {
		return fmt.Sprintf("o%d:%d", k[0], k[1])
	}
	return "?"
}

// opqKeyOf: the (class, id) under which x is stored; if several stored values are equal to x, the key most recently
// asked for (ties: the smallest) - deterministic whatever the map order; safe for concurrent use
func opqKeyOf(x any) (key [2]int, found bool) {
	storeMu.Lock()
	defer storeMu.Unlock()
	for k, v := range opqStore {
		if sameOpq(v, x) && (!found || opqUse[k] > opqUse[key] || (opqUse[k] == opqUse[key] && (k[0] < key[0] || (k[0] == key[0] && k[1] < key[1])))) {
			key, found = k, true
		}
	}
	return
}

func sameOpq(a, b any) (same bool) {
	defer func() {
		if recover() != nil {
			same = fmt.Sprintf("%p", a) == fmt.Sprintf("%p", b) && fmt.Sprintf("%T", a) == fmt.Sprintf("%T", b)
		}
	}()
	return a == b
}

func kindCode(k string) int {
	switch strings.ToUpper(k) {
	case "AND":
		return 1
	case "OR":
		return 2
	case "NOT":
		return 3
	case "LIST":
		return 4
	case "BASIC":
		return 6
	}
	return 0
}

func sortedKeys(m map[string]int) []string {
	var ks []string
	for k := range m {
		ks = append(ks, k)
	}
	sort.Strings(ks)
	return ks
}
