// Command harness generates cases for the correspondence streams and runs them
// in-process against the real go-stackage code (built from /repo with -tags verif).
//
//	harness gen <stream> -seed S -n N      one case per line on stdout
//	harness run                             case lines on stdin -> "<id> <observation>" lines
package main

import (
	"bufio"
	"flag"
	"fmt"
	"math/rand"
	"os"
	"strings"
	"time"
)

type stream struct {
	gen func(r *rand.Rand, id string, tier string) string // returns the case payload (after "<stream> <id> | ")
	run func(payload string) string
}

var streams = map[string]*stream{}

func main() {
	if len(os.Args) < 2 {
		fmt.Fprintln(os.Stderr, "usage: harness gen|run ...")
		os.Exit(2)
	}
	switch os.Args[1] {
	case "gen":
		fs := flag.NewFlagSet("gen", flag.ExitOnError)
		seed := fs.Int64("seed", 1, "")
		n := fs.Int("n", 100, "")
		tier := fs.String("tier", "quick", "")
		name := os.Args[2]
		fs.Parse(os.Args[3:])
		st := streams[name]
		if st == nil {
			fmt.Fprintln(os.Stderr, "unknown stream", name)
			os.Exit(2)
		}
		r := rand.New(rand.NewSource(*seed*7919 + int64(len(name))))
		w := bufio.NewWriter(os.Stdout)
		for i := 0; i < *n; i++ {
			id := fmt.Sprintf("%s-%d-%d", name, *seed, i)
			// a generator that consults the code under test (to aim indices at the current length, say) must not take
			// the whole run down with it when that code panics or hangs: the case is dropped, the rest is generated
			type res struct {
				s  string
				ok bool
			}
			ch := make(chan res, 1)
			go func() {
				defer func() {
					if recover() != nil {
						ch <- res{"", false}
					}
				}()
				ch <- res{st.gen(r, id, *tier), true}
			}()
			select {
			case g := <-ch:
				if g.ok {
					fmt.Fprintf(w, "%s %s | %s\n", name, id, g.s)
				} else {
					fmt.Fprintf(os.Stderr, "generator panicked on case %s (dropped)\n", id)
				}
			case <-time.After(3 * time.Second):
				fmt.Fprintf(os.Stderr, "generator hung on case %s (dropped); remaining cases of this stream not generated\n", id)
				i = *n // the abandoned goroutine still owns the random source
			}
		}
		w.Flush()
	case "run":
		sc := bufio.NewScanner(os.Stdin)
		sc.Buffer(make([]byte, 1<<20), 1<<26)
		w := bufio.NewWriter(os.Stdout)
		primeConverters()
		ncase := 0
		for sc.Scan() {
			if ncase++; ncase%97 == 0 {
				primeConverters()
			}
			line := sc.Text()
			if strings.TrimSpace(line) == "" {
				continue
			}
			p := strings.SplitN(line, " | ", 2)
			hd := strings.Fields(p[0])
			st := streams[hd[0]]
			if st == nil || len(p) < 2 {
				fmt.Fprintf(w, "%s BADCASE\n", hd[len(hd)-1])
				continue
			}
			if primeFailed != "" {
				fmt.Fprintf(w, "%s PRIME-FAIL: %s\n", hd[1], primeFailed)
				w.Flush()
				continue
			}
			fmt.Fprintf(w, "%s %s\n", hd[1], safeRun(st, p[1]))
			w.Flush()
		}
	case "parq":
		parqMain(os.Args[2:])
	default:
		if f, ok := commands[os.Args[1]]; ok { // extra sub-commands registered by a stream file
			f(os.Args[2:])
			return
		}
		fmt.Fprintln(os.Stderr, "usage: harness gen|run ...")
		os.Exit(2)
	}
}

var timeouts int

// watchdog: generous at first, short once calls have started to hang (a deadlocking change hangs many cases)
func caseWatchdog() time.Duration {
	if timeouts >= 3 {
		return 150 * time.Millisecond
	}
	return 5 * time.Second
}

func safeRun(st *stream, payload string) string {
	done := make(chan string, 1)
	go func() {
		defer func() {
			if r := recover(); r != nil {
				done <- "PANIC"
			}
		}()
		done <- st.run(payload)
	}()
	select {
	case out := <-done:
		return out
	case <-time.After(caseWatchdog()):
		timeouts++
		return "TIMEOUT" // a call that never returns (deadlock); the goroutine is abandoned
	}
}

// guard runs f and reports a panic as the token PANIC
func guard(f func() string) (out string) {
	defer func() {
		if r := recover(); r != nil {
			out = "PANIC"
		}
	}()
	return f()
}
