// Command harness generates cases for the correspondence streams and runs them
// in-process against the real go-stackage code (built from /repo with -tags verif).
//
//	harness gen <stream> -seed S -n N      one case per line on stdout
//	harness run                             case lines on stdin -> "<id> <observation>" lines
package main

import (
	"bufio"
	"flag"
	"fmt"
	"math/rand"
	"os"
	"strings"
)

type stream struct {
	gen func(r *rand.Rand, id string, tier string) string // returns the case payload (after "<stream> <id> | ")
	run func(payload string) string
}

var streams = map[string]*stream{}

func main() {
	if len(os.Args) < 2 {
		fmt.Fprintln(os.Stderr, "usage: harness gen|run ...")
		os.Exit(2)
	}
	switch os.Args[1] {
	case "gen":
		fs := flag.NewFlagSet("gen", flag.ExitOnError)
		seed := fs.Int64("seed", 1, "")
		n := fs.Int("n", 100, "")
		tier := fs.String("tier", "quick", "")
		name := os.Args[2]
		fs.Parse(os.Args[3:])
		st := streams[name]
		if st == nil {
			fmt.Fprintln(os.Stderr, "unknown stream", name)
			os.Exit(2)
		}
		r := rand.New(rand.NewSource(*seed*7919 + int64(len(name))))
		w := bufio.NewWriter(os.Stdout)
		for i := 0; i < *n; i++ {
			id := fmt.Sprintf("%s-%d-%d", name, *seed, i)
			fmt.Fprintf(w, "%s %s | %s\n", name, id, st.gen(r, id, *tier))
		}
		w.Flush()
	case "run":
		sc := bufio.NewScanner(os.Stdin)
		sc.Buffer(make([]byte, 1<<20), 1<<26)
		w := bufio.NewWriter(os.Stdout)
		for sc.Scan() {
			line := sc.Text()
			if strings.TrimSpace(line) == "" {
				continue
			}
			p := strings.SplitN(line, " | ", 2)
			hd := strings.Fields(p[0])
			st := streams[hd[0]]
			if st == nil || len(p) < 2 {
				fmt.Fprintf(w, "%s BADCASE\n", hd[len(hd)-1])
				continue
			}
			fmt.Fprintf(w, "%s %s\n", hd[1], safeRun(st, p[1]))
			w.Flush()
		}
	case "parq":
		parqMain(os.Args[2:])
	default:
		fmt.Fprintln(os.Stderr, "usage: harness gen|run|parq ...")
		os.Exit(2)
	}
}

func safeRun(st *stream, payload string) (out string) {
	defer func() {
		if r := recover(); r != nil {
			out = "PANIC"
		}
	}()
	return st.run(payload)
}

// guard runs f and reports a panic as the token PANIC
func guard(f func() string) (out string) {
	defer func() {
		if r := recover(); r != nil {
			out = "PANIC"
		}
	}()
	return f()
}
