package main

// stream `nilpat` (C19): stacks built from nil / non-nil patterns, Defrag(max...) on the
// real code, then Len, every element and Err() of the whole tree.
//
//	case payload:  <stack literal> | defrag <max|->
//	observation:   K<len>:<err>[e,e,...]   e := leaf short form | nested stack (same syntax)
//	                                           | C(<expression>) | Z (zero Stack) | N
//
// Enumeration mode: the trailing number of the case id selects, below a tier-dependent bound,
// (pattern, max, index options) exhaustively - every pattern of length 0..5 (quick) / 0..12
// (thorough) x max in {default,1,2,3,50} x the four negative/forward index option settings.
// Ids beyond the bound are random: longer patterns (boundary-biased around the truncation
// arithmetic and the scan limit) and nesting inside Stacks and Conditions.

import (
	"fmt"
	"math/rand"
	"strconv"
	"strings"

	stackage "github.com/JesseCoretta/go-stackage"
)

func init() {
	streams["nilpat"] = &stream{gen: genNilpat, run: runNilpat}
}

var defragMaxes = []string{"-", "1", "2", "3", "50"}

func enumBound(tier string) (maxLen int, n int) {
	maxLen = 5
	if tier == "thorough" {
		maxLen = 12
	}
	return maxLen, ((1 << (maxLen + 1)) - 1) * len(defragMaxes) * 4
}

// patStack builds a LIST stack literal from a pattern (true = non-nil); the non-nil
// elements are the integers 1,2,3,... in order, so order and identity are observable
func patStack(pat []bool, opt int, kind int) V {
	st := V{T: 'K', Form: "n", Cfg: Cfg{Kind: kind, Opt: opt}}
	k := 0
	for _, nn := range pat {
		if nn {
			k++
			st.Xs = append(st.Xs, V{T: 'i', I: int64(k)})
		} else {
			st.Xs = append(st.Xs, V{T: 'N'})
		}
	}
	return st
}

func idxOpt(k int) int {
	o := 0
	if k&1 != 0 {
		o |= fNeg
	}
	if k&2 != 0 {
		o |= fFwd
	}
	return o
}

func genNilpat(r *rand.Rand, id string, tier string) string {
	seq := 0
	if p := strings.LastIndexByte(id, '-'); p >= 0 {
		seq, _ = strconv.Atoi(id[p+1:])
	}
	_, bound := enumBound(tier)
	if seq < bound {
		o := seq % 4
		m := (seq / 4) % len(defragMaxes)
		p := seq/(4*len(defragMaxes)) + 1 // 1.. : leading one marks the length
		l := 0
		for (p >> (l + 1)) != 0 {
			l++
		}
		pat := make([]bool, l)
		for i := 0; i < l; i++ {
			pat[i] = (p>>(l-1-i))&1 == 1
		}
		return patStack(pat, idxOpt(o), 4).String() + " | defrag " + defragMaxes[m]
	}
	return genNilpatRandom(r, tier)
}

// randPattern: a nil pattern of length n, aimed at the boundaries of the code:
// trailing nils, total nils = 2*trailing+5 (the only shape the truncation gets right),
// first gap at / around the scan limit, runs around the scan limit
func randPattern(r *rand.Rand, n int, max int) []bool {
	pat := make([]bool, n)
	switch r.Intn(8) {
	case 0: // dense
		for i := range pat {
			pat[i] = r.Intn(8) != 0
		}
	case 1: // sparse
		for i := range pat {
			pat[i] = r.Intn(3) == 0
		}
	case 2: // no nil at all
		for i := range pat {
			pat[i] = true
		}
	case 3: // N = 2t+5: t trailing nils, t+5 inner nils
		t := r.Intn(4)
		inner := t + 5
		if n < inner+t+2 {
			n = inner + t + 2 + r.Intn(4)
			pat = make([]bool, n)
		}
		for i := range pat {
			pat[i] = true
		}
		for i := 0; i < t; i++ {
			pat[n-1-i] = false
		}
		// the last non-nil sits at n-1-t; choose inner nils strictly before it
		for placed := 0; placed < inner; {
			k := r.Intn(n - 1 - t)
			if pat[k] {
				pat[k] = false
				placed++
			}
		}
	case 4: // first gap near the scan limit
		for i := range pat {
			pat[i] = true
		}
		if n > 0 {
			g := max - 1 + r.Intn(3)
			if g < 0 {
				g = 0
			}
			if g >= n {
				g = n - 1
			}
			pat[g] = false
			for i := g + 1; i < n; i++ {
				pat[i] = r.Intn(4) != 0
			}
		}
	case 5: // runs of length around the scan limit
		i := 0
		for i < n {
			run := max - 1 + r.Intn(3)
			if run < 1 {
				run = 1
			}
			for k := 0; k < 1+r.Intn(3) && i < n; k++ {
				pat[i] = true
				i++
			}
			for k := 0; k < run && i < n; k++ {
				i++
			}
		}
	case 6: // alternating (the a _ b _ c family)
		for i := range pat {
			pat[i] = i%2 == 0
		}
	default:
		for i := range pat {
			pat[i] = r.Intn(2) == 0
		}
	}
	return pat
}

func genNilpatRandom(r *rand.Rand, tier string) string {
	ms := defragMaxes[r.Intn(len(defragMaxes))]
	switch r.Intn(16) {
	case 0:
		ms = []string{"0", "-1", "4", "7", "12", "9223372036854775807", "-9223372036854775808"}[r.Intn(7)]
	}
	max := 50
	if n, err := strconv.Atoi(ms); err == nil && n > 0 && n < 1000 {
		max = n
	}
	maxLen := 24
	if tier == "thorough" {
		maxLen = 40
	}
	depth := r.Intn(3)
	if r.Intn(3) == 0 {
		depth = 0
	}
	var mk func(d int, top bool) V
	mk = func(d int, top bool) V {
		n := r.Intn(maxLen + 1)
		if top && d == 0 {
			n = 13 + r.Intn(maxLen-12)
		}
		if d > 0 && !top {
			n = r.Intn(10)
		} else if d > 0 {
			n = r.Intn(14)
		}
		pat := randPattern(r, n, max)
		opt := idxOpt([]int{0, 0, 1, 2, 3}[r.Intn(5)])
		if !top && r.Intn(12) == 0 {
			opt |= fRO
		}
		if r.Intn(8) == 0 {
			opt |= fNNest // set after the content is in place: what is nested stays nested, and is compacted
		}
		st := patStack(pat, opt, kinds(r))
		if !top {
			st.Form = []string{"n", "n", "n", "a", "as", "p"}[r.Intn(6)]
		}
		if r.Intn(5) == 0 {
			st.Cfg.Cap = len(st.Xs) + r.Intn(3) // a capacity (also a small one on a parent) is no scan limit, for itself or for what it holds
			if st.Cfg.Cap == 0 {
				st.Cfg.Cap = 1
			}
		}
		if r.Intn(6) == 0 {
			st.Cfg.Vpf = 1 + r.Intn(2) // a validity policy (2 rejects the instance) has no say in whether gaps are closed
		}
		if r.Intn(3) == 0 {
			// some values are typed nil pointers (class 5), zero-valued instances or other awkward non-nil values:
			// they are elements like any other, not gaps
			for i := range st.Xs {
				if st.Xs[i].T == 'i' && r.Intn(4) == 0 {
					st.Xs[i] = []V{{T: 'o', Ty: 5, ID: 1}, {T: 'o', Ty: 20, ID: 3}, {T: 'o', Ty: 3, ID: 1}, {T: 'Z', Form: "n"}, {T: 's', S: ""}}[r.Intn(5)]
				}
			}
		}
		if d > 0 {
			// replace some non-nil elements by nested stacks / conditions
			for i := range st.Xs {
				if st.Xs[i].T != 'i' {
					continue
				}
				switch r.Intn(7) {
				case 0, 1:
					st.Xs[i] = mk(d-1, false)
				case 2:
					c := V{T: 'C', Form: []string{"n", "n", "a", "p"}[r.Intn(4)], Kw: "k", Op: "c1"}
					if r.Intn(4) == 0 {
						c.Xs = []V{{T: 'i', I: 77}}
					} else {
						c.Xs = []V{mk(d-1, false)}
					}
					st.Xs[i] = c
				case 3:
					if r.Intn(4) == 0 {
						st.Xs[i] = V{T: 'Z', Form: []string{"n", "a"}[r.Intn(2)]}
					}
				}
			}
		}
		return st
	}
	root := mk(depth, true)
	if r.Intn(3) == 0 {
		// aim the scan limit at the boundaries of this very pattern: position of the first gap, number of nils,
		// longest run, each -1 / +0 / +1 / +2
		first, total, run, longest := -1, 0, 0, 0
		for i, x := range root.Xs {
			if x.T == 'N' {
				if first < 0 {
					first = i
				}
				total++
				run++
				if run > longest {
					longest = run
				}
			} else {
				run = 0
			}
		}
		base := []int{first, total, longest}[r.Intn(3)]
		if n := base + r.Intn(4) - 1; n > 0 {
			ms = strconv.Itoa(n)
		}
	}
	return root.String() + " | defrag " + ms
}

func defragErrClass(e error) string {
	if e == nil {
		return "-"
	}
	if strings.HasPrefix(e.Error(), "defragmentation failed") {
		return "E900"
	}
	return errClass(e)
}

func obsTree(s stackage.Stack) string {
	n := s.Len()
	var es []string
	for i := 0; i < n; i++ {
		v, _ := s.Index(i)
		es = append(es, obsElem(v))
	}
	return fmt.Sprintf("K%d:%s[%s]", n, defragErrClass(s.Err()), strings.Join(es, ","))
}

func obsElem(x any) string {
	if x == nil {
		return "N"
	}
	if s, ok := stackage.ConvertStack(x); ok {
		if !s.IsInit() {
			return "Z"
		}
		return obsTree(s)
	}
	if c, ok := stackage.ConvertCondition(x); ok {
		if !c.IsInit() {
			return "Y"
		}
		return "C(" + obsElem(c.Expression()) + ")"
	}
	// a zero-valued native Stack / Condition is not converted by the repaired converters
	switch tv := x.(type) {
	case stackage.Stack:
		if !tv.IsInit() {
			return "Z"
		}
	case stackage.Condition:
		if !tv.IsInit() {
			return "Y"
		}
	}
	if sh := Short(x); sh != "?" {
		return sh
	}
	return "Z"
}

func runNilpat(payload string) string {
	parts := strings.SplitN(payload, " | ", 2)
	v, _ := parseV(strings.Fields(parts[0]))
	s := BuildStack(v)
	op := strings.Fields(parts[1])
	if len(op) != 2 || op[0] != "defrag" {
		panic("bad op")
	}
	return guard(func() string {
		if op[1] == "-" {
			s.Defrag()
		} else {
			s.Defrag(atoi64(op[1]))
		}
		return obsTree(s)
	})
}
