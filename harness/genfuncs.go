package main

// stream `genfuncs` (translator self-check, run with C01 / C05 / C19): the scalar functions the extractor translates
// whole (lean/Stackage/Gen/Funcs.lean) are executed in Go (through VerifCall) and in Lean on the same arguments,
// extremes included. A translation mistake of the extractor shows here before any theorem is consulted.
//
//	fni <i> <L>          factorNegIndex(i, L)
//	cle <c1> <c2> <l1> <l2>   capLenEqual
//	cdm <int>*           calculateDefragMax(max...)

import (
	"fmt"
	"math"
	"math/rand"
	"strconv"
	"strings"

	stackage "github.com/JesseCoretta/go-stackage"
)

func init() {
	streams["genfuncs"] = &stream{gen: genGenFuncs, run: runGenFuncs}
}

func genInt(r *rand.Rand) int64 {
	switch r.Intn(10) {
	case 0:
		return math.MinInt64
	case 1:
		return math.MaxInt64
	case 2:
		return math.MinInt64 + int64(r.Intn(3))
	case 3:
		return math.MaxInt64 - int64(r.Intn(3))
	case 4:
		return int64(r.Intn(1 << 30))
	case 5:
		return -int64(r.Intn(1 << 30))
	}
	return int64(r.Intn(13) - 6)
}

func genGenFuncs(r *rand.Rand, id string, tier string) string {
	switch r.Intn(3) {
	case 0:
		return fmt.Sprintf("fni %d %d", genInt(r), genInt(r))
	case 1:
		return fmt.Sprintf("cle %d %d %d %d", genInt(r), genInt(r), genInt(r), genInt(r))
	}
	var xs []string
	for i, n := 0, r.Intn(3); i < n; i++ {
		xs = append(xs, strconv.FormatInt(genInt(r), 10))
	}
	return strings.TrimSpace("cdm " + strings.Join(xs, " "))
}

func runGenFuncs(payload string) string {
	t := strings.Fields(payload)
	return guard(func() string {
		switch t[0] {
		case "fni":
			return fmt.Sprint(stackage.VerifCall("factorNegIndex", atoi64(t[1]), atoi64(t[2]))[0])
		case "cle":
			return b01(stackage.VerifCall("capLenEqual", atoi64(t[1]), atoi64(t[2]), atoi64(t[3]), atoi64(t[4]))[0].(bool))
		case "cdm":
			var xs []int
			for _, x := range t[1:] {
				xs = append(xs, atoi64(x))
			}
			return fmt.Sprint(stackage.VerifCall("calculateDefragMax", xs)[0])
		}
		return "BADCASE"
	})
}
