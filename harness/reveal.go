package main

// stream `revealtrees` (C20): random trees, the real Stack.Reveal() under a watchdog,
// the resulting tree read back structurally.
//
// observation (one line, blocks separated by " ; "):
//
//	L <leaves after>  NF <normal form after>  KP <kept nodes after>
//	D <depth after <= depth before>  R <after reachable from before by legal unwrap steps>
//	T <tree after>  X <ids of the stacks whose mutex was taken, in order>
//
// or PANIC / DEADLOCK (watchdog). The L/NF/KP/D/R blocks are computed here by Go ports of
// Stackage/Spec/Unwrap.lean; they only serve to tell a specification failure from a
// model divergence (bin/props.py). When the T block equals the Lean model's T block, the
// Lean-side blocks of the M line are statements about this very tree.

import (
	"fmt"
	"math/rand"
	"os"
	"strconv"
	"strings"
	"sync"
	"time"

	stackage "github.com/JesseCoretta/go-stackage"
)

func init() {
	streams["revealtrees"] = &stream{gen: genRevealTree, run: runRevealTree}
}

// ---------------------------------------------------------------------------
// generator

type revGen struct {
	r      *rand.Rand
	nextID int
	nextLf int
	allMtx bool
	noMtx  bool
	nilPtr bool // also place nil *Stack / *Condition leaves (they satisfy Interface; repaired by F31: skipped)
}

var revKinds = []int{1, 2, 3, 4, 6}

func (g *revGen) leaf() V {
	g.nextLf++
	switch g.r.Intn(12) {
	case 0:
		return V{T: 's', S: fmt.Sprintf("v%d", g.nextLf)}
	case 1:
		return V{T: 'b', B: g.r.Intn(2) == 0}
	case 2:
		return V{T: 'n', Ty: 1, S: strconv.Itoa(g.nextLf) + ".5"}
	case 3:
		return V{T: 'g', ID: g.nextLf, S: fmt.Sprintf("g%d", g.nextLf)}
	case 4:
		// opaque values; funcs and typed nil pointers cannot be told apart by identity, so they get id 0
		switch cls := 1 + g.r.Intn(7); cls {
		case 1, 5:
			return V{T: 'o', Ty: cls, ID: 0}
		default:
			return V{T: 'o', Ty: cls, ID: g.nextLf}
		}
	default:
		return V{T: 'i', I: int64(g.nextLf)}
	}
}

func (g *revGen) form() string {
	switch g.r.Intn(10) {
	case 0, 1:
		return "a"
	case 2:
		return "as"
	case 3:
		return "p"
	}
	return "n"
}

// stackCfg: kind, paren, index options, mutex, read-only; every stack gets a unique ID
func (g *revGen) stackCfg(unwrappable bool) Cfg {
	c := Cfg{Kind: revKinds[g.r.Intn(len(revKinds))]}
	if unwrappable {
		for c.Kind == 3 {
			c.Kind = revKinds[g.r.Intn(len(revKinds))]
		}
	} else if g.r.Intn(4) == 0 {
		c.Opt |= fParen
	}
	if g.r.Intn(10) == 0 {
		c.Opt |= fFwd
	}
	if g.r.Intn(12) == 0 {
		c.Opt |= fNeg
	}
	if g.r.Intn(25) == 0 {
		c.Opt |= fRO
	}
	if !g.noMtx && (g.allMtx || g.r.Intn(4) == 0) {
		c.Mtx = true
	}
	if g.r.Intn(8) == 0 {
		c.Fifo = true
	}
	// presentation settings of the kind word must not matter to Reveal (a folded / symbolic NOT is still a NOT)
	if g.r.Intn(5) == 0 {
		c.Opt |= fFold
	}
	if c.Kind != 4 && g.r.Intn(6) == 0 {
		c.Sym = []string{"!", "~", "not"}[g.r.Intn(3)]
	}
	c.ID = fmt.Sprintf("s%d", g.nextID)
	g.nextID++
	return c
}

func (g *revGen) zero() V {
	if g.r.Intn(2) == 0 {
		return V{T: 'Z', Form: g.form()}
	}
	return V{T: 'Y', Form: g.form()}
}

func (g *revGen) cond(depth int) V {
	g.nextLf++
	c := V{T: 'C', Form: g.form(), Kw: fmt.Sprintf("k%d", g.nextLf)}
	switch g.r.Intn(8) {
	case 0:
		c.Op = fmt.Sprintf("u%d:%s:%s", g.nextLf, hx("~="), hx("user"))
	default:
		c.Op = "c" + strconv.Itoa(1+g.r.Intn(6))
	}
	if g.r.Intn(4) == 0 {
		c.Cfg.Opt |= fParen
	}
	if g.r.Intn(10) == 0 {
		c.Cfg.Opt |= fRO
	}
	if g.r.Intn(10) == 0 {
		c.Cfg.Opt |= fNNest
	}
	if g.r.Intn(15) == 0 {
		c.Cfg.Err = 7
	}
	var ex V
	switch k := g.r.Intn(10); {
	case k < 6 && depth > 0:
		ex = g.stack(depth-1, g.form())
	case k == 6 && depth > 0:
		ex = g.cond(depth - 1)
	case k == 7:
		ex = g.zero()
	default:
		ex = g.leaf()
	}
	c.Xs = []V{ex}
	return c
}

// elem: one element of a multi-element stack
func (g *revGen) elem(depth int) V {
	k := g.r.Intn(100)
	switch {
	case k < 8:
		return V{T: 'N'}
	case k < 12:
		return g.zero()
	case k < 15:
		return V{T: 'A', Xs: []V{g.leaf(), g.leaf()}}
	case k < 40 && depth > 0:
		return g.chain(depth - 1)
	case k < 55 && depth > 0:
		return g.cond(depth - 1)
	case k >= 55 && k < 57 && g.nilPtr:
		return V{T: 'o', Ty: 20 + g.r.Intn(2), ID: 0}
	}
	return g.leaf()
}

// only: the single element of a one-element stack
func (g *revGen) only(depth int) V {
	k := g.r.Intn(100)
	switch {
	case k < 45 && depth > 0:
		return g.stack(depth-1, g.form())
	case k < 70 && depth > 0:
		return g.cond(depth - 1)
	case k < 75:
		return V{T: 'N'}
	case k < 85:
		return g.zero()
	case k >= 85 && k < 88 && g.nilPtr:
		return V{T: 'o', Ty: 20 + g.r.Intn(2), ID: 0}
	}
	return g.leaf()
}

func (g *revGen) stack(depth int, form string) V {
	s := V{T: 'K', Form: form}
	shape := g.r.Intn(10)
	switch {
	case shape == 0: // empty
		s.Cfg = g.stackCfg(false)
	case shape < 5: // exactly one element
		s.Cfg = g.stackCfg(g.r.Intn(2) == 0)
		s.Xs = []V{g.only(depth)}
	case shape == 9 && depth > 1:
		// revealSingle(0) target: a Condition holding an alias of a stack in slot 0 (with the options
		// that make SetExpression refuse), followed by a removable wrapper that triggers the call
		s.Cfg = g.stackCfg(false)
		c := g.cond(0)
		c.Xs = []V{g.stack(depth-2, []string{"a", "as", "p", "n"}[g.r.Intn(4)])}
		s.Xs = []V{c, V{T: 'K', Form: g.form(), Cfg: g.stackCfg(true), Xs: []V{g.stack(depth-2, "n")}}}
		if g.r.Intn(2) == 0 {
			s.Xs = append(s.Xs, g.elem(depth))
		}
	default:
		s.Cfg = g.stackCfg(false)
		n := 2 + g.r.Intn(3)
		for i := 0; i < n; i++ {
			s.Xs = append(s.Xs, g.elem(depth))
		}
	}
	return s
}

// chain: 0-4 single-element wrappers (mostly removable ones) around a stack or condition;
// the result has at most depth+1 stack levels
func (g *revGen) chain(depth int) V { return g.chainMin(depth, 0) }

func (g *revGen) chainMin(depth, min int) V {
	n := min + g.r.Intn(5-min)
	if n > depth {
		n = depth
	}
	var base V
	if g.r.Intn(4) == 0 && depth-n > 0 {
		base = g.cond(depth - n - 1)
	} else {
		base = g.stack(depth-n, g.form())
	}
	for i := 0; i < n; i++ {
		w := V{T: 'K', Form: g.form(), Cfg: g.stackCfg(g.r.Intn(4) != 0), Xs: []V{base}}
		base = w
	}
	return base
}

func genRevealTree(r *rand.Rand, id string, tier string) string {
	if tier == "thorough" {
		// exhaustive first: every small tree (revealenum.go), then random ones
		if all, idx := revEnum(), caseIndex(id); idx < len(all) {
			r.Intn(2) // keep the random stream moving
			return revealPayload(all[idx])
		}
	}
	g := &revGen{r: r, nilPtr: os.Getenv("VERIF_C20_NILPTR") != "0"}
	switch r.Intn(6) {
	case 0:
		g.allMtx = true
	case 1:
		g.noMtx = true
	}
	depth := 2 + r.Intn(4) // receiver at depth 0, deepest stack at depth <= 5
	root := V{T: 'K', Form: "n", Cfg: g.stackCfg(false)}
	root.Cfg.Opt &^= fRO
	if r.Intn(40) == 0 {
		root.Cfg.Opt |= fRO
	}
	n := 1 + r.Intn(4)
	if r.Intn(30) == 0 {
		n = 0
	}
	special := -1
	if n > 0 && r.Intn(10) < 6 {
		special = r.Intn(n) // most receivers hold at least one chain of wrappers
	}
	for i := 0; i < n; i++ {
		if i == special {
			root.Xs = append(root.Xs, g.chainMin(depth-1, 1))
		} else {
			root.Xs = append(root.Xs, g.elem(depth))
		}
	}
	return revealPayload(root)
}

// payload: `K n <cfg> | e1 ; e2 ; …` (or `-` for no element): the receiver's elements are separated
// by " ; " so that bin/check's shrinker can drop them one by one
func revealPayload(root V) string {
	var es []string
	for _, x := range root.Xs {
		es = append(es, x.String())
	}
	if len(es) == 0 {
		es = []string{"-"}
	}
	return fmt.Sprintf("K %s %s | %s", root.Form, root.Cfg, strings.Join(es, " ; "))
}

func parseRevealPayload(payload string) V {
	p := strings.SplitN(payload, " | ", 2)
	hd := strings.Fields(p[0])
	root := V{T: 'K', Form: hd[1], Cfg: parseCfg(hd[2])}
	if len(p) > 1 {
		for _, e := range strings.Split(p[1], " ; ") {
			if e = strings.TrimSpace(e); e != "" && e != "-" {
				x, _ := parseV(strings.Fields(e))
				root.Xs = append(root.Xs, x)
			}
		}
	}
	return root
}

// ---------------------------------------------------------------------------
// reading a real value back

func leafOfShort(x any) V {
	s := Short(x)
	if s == "?" || strings.HasPrefix(s, "K") || strings.HasPrefix(s, "C#") || strings.HasPrefix(s, "A#") {
		return V{T: 'o', Ty: 99, ID: 0}
	}
	v, _ := parseV([]string{s})
	return v
}

func cfgOfDump(d stackage.VerifState, isCond bool) Cfg {
	c := Cfg{Opt: int(d.Opt), Fifo: d.Fifo, Sym: d.Sym, Ljc: d.Ljc, ID: d.ID, Cat: d.Cat, Mtx: d.Mtx}
	if !isCond {
		c.Kind = int(d.Kind)
	}
	if d.Cap > 0 {
		c.Cap = d.Cap - 1
	}
	for _, e := range d.Enc {
		c.Enc = append(c.Enc, append([]string{}, e...))
	}
	if d.HasErr {
		c.Err = -1
		if len(d.Err) > 1 && d.Err[0] == 'E' {
			if n, err := strconv.Atoi(d.Err[1:]); err == nil {
				c.Err = n
			}
		}
	}
	return c
}

func rvDescribeStack(s stackage.Stack, form string) V {
	if s.IsZero() {
		return V{T: 'Z', Form: form}
	}
	d := stackage.VerifDump(s)
	v := V{T: 'K', Form: form, Cfg: cfgOfDump(d, false)}
	for _, e := range d.Elems {
		v.Xs = append(v.Xs, rvDescribe(e))
	}
	return v
}

func rvDescribeCond(c stackage.Condition, form string) V {
	if c.IsZero() {
		return V{T: 'Y', Form: form}
	}
	d := stackage.VerifDump(c)
	v := V{T: 'C', Form: form, Cfg: cfgOfDump(d, true), Kw: d.Kw, Op: opStr(c.Operator())}
	var ex any
	if len(d.Elems) > 0 {
		ex = d.Elems[0]
	}
	v.Xs = []V{rvDescribe(ex)}
	return v
}

// Describe reads a real value back into a value literal: kinds, option bits, forms,
// leaves, condition keyword / operator — structurally, through VerifDump (raw slots).
func rvDescribe(x any) V {
	switch tv := x.(type) {
	case nil:
		return V{T: 'N'}
	case stackage.Stack:
		return rvDescribeStack(tv, "n")
	case AStack:
		return rvDescribeStack(stackage.Stack(tv), "a")
	case SStack:
		return rvDescribeStack(stackage.Stack(tv), "as")
	case *AStack:
		if tv != nil {
			return rvDescribeStack(stackage.Stack(*tv), "p")
		}
	case stackage.Condition:
		return rvDescribeCond(tv, "n")
	case ACond:
		return rvDescribeCond(stackage.Condition(tv), "a")
	case SCond:
		return rvDescribeCond(stackage.Condition(tv), "as")
	case *ACond:
		if tv != nil {
			return rvDescribeCond(stackage.Condition(*tv), "p")
		}
	case *stackage.Stack:
		if tv == nil {
			return V{T: 'o', Ty: 20, ID: 0}
		}
		return V{T: 'o', Ty: 98, ID: 0} // non-nil pointer to a native Stack: outside the value universe
	case *stackage.Condition:
		if tv == nil {
			return V{T: 'o', Ty: 21, ID: 0}
		}
		return V{T: 'o', Ty: 98, ID: 1}
	case []any:
		v := V{T: 'A'}
		for _, e := range tv {
			v.Xs = append(v.Xs, rvDescribe(e))
		}
		return v
	}
	return leafOfShort(x)
}

// ---------------------------------------------------------------------------
// Go ports of Spec/Unwrap.lean (classification only, see the header)

func parenV(v V) bool {
	if v.T == 'K' {
		return v.Cfg.Kind != 0 && v.Cfg.Opt&fParen != 0
	}
	return v.T == 'C' && v.Cfg.Opt&fParen != 0
}

func okWrapperV(v V) bool { return !parenV(v) && v.Cfg.Kind != 3 }

func okChildV(v V) bool {
	switch v.T {
	case 'K', 'C':
		return v.Form == "n" && !parenV(v)
	case 'Z', 'Y':
		return v.Form == "n"
	}
	return false
}

func leavesV(v V, out *[]string) {
	switch v.T {
	case 'K':
		for _, x := range v.Xs {
			leavesV(x, out)
		}
	case 'C':
		*out = append(*out, "c:"+hx(v.Kw)+":"+v.Op)
		leavesV(v.Xs[0], out)
	default:
		*out = append(*out, strings.ReplaceAll(v.String(), " ", "_"))
	}
}

func keptV(v V, out *[]string) {
	switch v.T {
	case 'K':
		if parenV(v) || v.Cfg.Kind == 3 {
			*out = append(*out, "K{"+v.Cfg.String()+"}")
		}
		for _, x := range v.Xs {
			keptV(x, out)
		}
	case 'C':
		if parenV(v) {
			*out = append(*out, "C{"+v.Cfg.String()+"}:"+hx(v.Kw)+":"+v.Op)
		}
		keptV(v.Xs[0], out)
	}
}

func depthV(v V) int {
	switch v.T {
	case 'K':
		d := 0
		for _, x := range v.Xs {
			if k := depthV(x); k > d {
				d = k
			}
		}
		return 1 + d
	case 'C':
		return 1 + depthV(v.Xs[0])
	}
	return 0
}

func peelV(v V) V {
	if v.T == 'K' && len(v.Xs) == 1 && okWrapperV(v) && okChildV(v.Xs[0]) {
		return v.Xs[0]
	}
	return v
}

func nfV(v V) V {
	switch v.T {
	case 'K':
		o := V{T: 'K', Form: "n", Cfg: v.Cfg}
		for _, x := range v.Xs {
			o.Xs = append(o.Xs, peelV(nfV(x)))
		}
		return o
	case 'C':
		o := v
		o.Xs = []V{nfV(v.Xs[0])}
		return o
	}
	return v
}

func formOkV(f, f2 string) bool { return f2 == f || f2 == "n" }

func reachV(a, b V) bool {
	switch a.T {
	case 'K':
		return b.T == 'K' && formOkV(a.Form, b.Form) && a.Cfg.String() == b.Cfg.String() && reachLV(a.Xs, b.Xs)
	case 'C':
		return b.T == 'C' && a.Form == b.Form && a.Cfg.String() == b.Cfg.String() && a.Kw == b.Kw && a.Op == b.Op && reachV(a.Xs[0], b.Xs[0])
	}
	return a.String() == b.String()
}

func reachEV(a, b V) bool {
	if a.T == 'K' {
		if reachV(a, b) {
			return true
		}
		return okWrapperV(a) && okChildV(b) && len(a.Xs) == 1 && reachEV(a.Xs[0], b)
	}
	return reachV(a, b)
}

func reachLV(as, bs []V) bool {
	if len(as) != len(bs) {
		return false
	}
	for i := range as {
		if !reachEV(as[i], bs[i]) {
			return false
		}
	}
	return true
}

func joinOrDash(xs []string) string {
	if len(xs) == 0 {
		return "-"
	}
	return strings.Join(xs, " ")
}

func specBlocks(before, after V) string {
	var ls, ks []string
	leavesV(after, &ls)
	keptV(after, &ks)
	b := func(x bool) string {
		if x {
			return "1"
		}
		return "0"
	}
	return fmt.Sprintf("L %s ; NF %s ; KP %s ; D %s ; R %s", joinOrDash(ls), nfV(after).String(), joinOrDash(ks),
		b(depthV(after) <= depthV(before)), b(reachV(before, after)))
}

// ---------------------------------------------------------------------------
// runner

func collectPtrs(x any, m map[uintptr]string) {
	if s, ok := stackage.ConvertStack(x); ok {
		d := stackage.VerifDump(s)
		m[d.SelfPtr] = d.ID
		for _, e := range d.Elems {
			collectPtrs(e, m)
		}
		return
	}
	if c, ok := stackage.ConvertCondition(x); ok {
		collectPtrs(c.Expression(), m)
	}
}

func collectStacks(x any, out *[]stackage.Stack) {
	if s, ok := stackage.ConvertStack(x); ok {
		*out = append(*out, s)
		for _, e := range stackage.VerifDump(s).Elems {
			collectStacks(e, out)
		}
		return
	}
	if c, ok := stackage.ConvertCondition(x); ok {
		collectStacks(c.Expression(), out)
	}
}

// watchdog: generous for the first few timeouts (a loaded machine must not fake a deadlock),
// short afterwards (a build that deadlocks does so on many cases)
var revealTimeouts = 0

func revealTimeout() time.Duration {
	if revealTimeouts >= 3 {
		return 100 * time.Millisecond
	}
	return 3 * time.Second
}

func runRevealTree(payload string) string {
	v := parseRevealPayload(payload)
	root := BuildStack(v)
	before := rvDescribe(root)
	if before.String() != v.String() {
		return "BADBUILD " + before.String()
	}
	ptrs := map[uintptr]string{}
	collectPtrs(root, ptrs)
	var handles []stackage.Stack // every Stack of the tree as it is before Reveal: none of them may be left locked
	collectStacks(root, &handles)

	var mu sync.Mutex
	var locks []string
	stackage.VerifHook = func(point string, id uintptr) {
		if point == "lock.held" {
			mu.Lock()
			if s, ok := ptrs[id]; ok {
				locks = append(locks, s)
			} else {
				locks = append(locks, "?")
			}
			mu.Unlock()
		}
	}
	defer func() { stackage.VerifHook = nil }()

	done := make(chan string, 1)
	go func() {
		defer func() {
			if r := recover(); r != nil {
				done <- "PANIC"
			}
		}()
		root.Reveal()
		done <- "ok"
	}()
	select {
	case res := <-done:
		if res != "ok" {
			return res
		}
	case <-time.After(revealTimeout()):
		revealTimeouts++
		return "DEADLOCK"
	}
	mu.Lock()
	x := joinOrDash(locks)
	mu.Unlock()
	after := rvDescribe(root)
	left := 0
	for _, h := range handles {
		if stackage.VerifDump(h).Locked {
			left++ // Reveal has returned and this instance's lock is still held: the next locking call on it never returns
		}
	}
	return fmt.Sprintf("%s ; T %s ; X %s U%d", specBlocks(before, after), after.String(), x, left)
}
