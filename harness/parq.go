package main

// `harness parq -seed S -n N`: C11 — all queries issued from 16 goroutines in parallel on the
// same structures (mutex-enabled and read-only ones included); each answer must equal the one
// obtained sequentially. Built with -race in the thorough tier.

import (
	"flag"
	"fmt"
	"math/rand"
	"os"
	"strings"
	"sync"
)

func parqMain(args []string) {
	fs := flag.NewFlagSet("parq", flag.ExitOnError)
	seed := fs.Int64("seed", 1, "")
	n := fs.Int("n", 200, "")
	fs.Parse(args)
	r := rand.New(rand.NewSource(*seed))
	bad := 0
	calls := 0
	for i := 0; i < *n; i++ {
		payload := genQueries(r, "parq", "quick")
		parts := strings.SplitN(payload, " | ", 3)
		recv := buildRecv(parts[1])
		qs := strings.Split(parts[2], " ; ")
		want := make([]string, len(qs))
		// in every other structure the arguments are built once and shared: all goroutines then ask the very same question
		// (same receiver, same argument instance), which is what "any number of goroutines may issue these queries" is about
		shared := i%4 >= 2
		var preps []prepared
		if shared {
			for _, q := range qs {
				preps = append(preps, prepare(recv, q))
			}
		}
		call := func(b *recvBox, k int, q string) (string, bool) {
			// (Transfer leaves its receiver alone but fills its ARGUMENT: every caller brings a destination of its own)
			if shared && !strings.HasPrefix(q, "Transfer") {
				return invokePrepared(b, preps[k])
			}
			return invoke(b, q)
		}
		parallelFirst := i%2 == 1 || i < 8 // half of the structures are hit by the goroutines before any sequential call (first-use effects)
		if !parallelFirst {
			for k, q := range qs {
				want[k], _ = call(recv, k, q)
			}
		}
		got0 := make([][]string, 16)
		var wg sync.WaitGroup
		var mu sync.Mutex
		for g := 0; g < 16; g++ {
			wg.Add(1)
			g := g
			got0[g] = make([]string, len(qs))
			go func() {
				defer wg.Done()
				// each goroutine works on its own copy of the handle (a Stack is a pointer wrapper): same underlying instance
				local := &recvBox{kind: recv.kind, s: recv.s, c: recv.c}
				for rep := 0; rep < 3; rep++ {
					for k, q := range qs {
						got, _ := call(local, k, q)
						if parallelFirst {
							if rep == 0 {
								got0[g][k] = got
							}
							continue
						}
						if got != want[k] && !strings.HasPrefix(q, "Addr") {
							mu.Lock()
							bad++
							fmt.Printf("PARQ-MISMATCH case=%q query=%q want=%s got=%s\n", payload, q, want[k], got)
							mu.Unlock()
						}
					}
				}
			}()
		}
		wg.Wait()
		if parallelFirst {
			for k, q := range qs {
				want[k], _ = call(recv, k, q)
				for g := 0; g < 16; g++ {
					if got0[g][k] != want[k] && !strings.HasPrefix(q, "Addr") {
						bad++
						fmt.Printf("PARQ-MISMATCH case=%q query=%q want=%s got=%s\n", payload, q, want[k], got0[g][k])
					}
				}
			}
		}
		calls += len(qs) * 16 * 3
	}
	fmt.Printf("parq structures=%d parallel_calls=%d mismatches=%d\n", *n, calls, bad)
	if bad > 0 {
		os.Exit(1)
	}
}
