package main

// stream `condhist` (C06, C13 condition part): setter histories on a Condition,
// starting from Cond(...) or Init(), with accepted and rejected arguments.

import (
	"fmt"
	"math/rand"
	"strings"

	stackage "github.com/JesseCoretta/go-stackage"
)

func init() {
	streams["condhist"] = &stream{gen: genCondHist, run: runCondHist}
}

func genKwArg(r *rand.Rand) V {
	switch r.Intn(7) {
	case 0:
		return V{T: 'N'}
	case 1:
		return V{T: 'i', I: 5}
	case 2:
		return V{T: 'g', ID: 1 + r.Intn(3), S: []string{"sk", "", "s k"}[r.Intn(3)]}
	case 3:
		return V{T: 'g', B: true}
	case 4:
		if r.Intn(2) == 0 {
			// stringer-like values without a usable text: refused as keyword, and never a reason to panic
			return []V{{T: 'o', Ty: 27, ID: 1}, {T: 'o', Ty: 28, ID: 1}, {T: 'o', Ty: 29, ID: 1}}[r.Intn(3)]
		}
		return V{T: 's', S: ""}
	default:
		return V{T: 's', S: []string{"cn", "mail", "k w", "é"}[r.Intn(4)]}
	}
}

func genOpArg(r *rand.Rand) string {
	return []string{"-", "c0", "c1", "c2", "c5", "c6", "c7", "c200",
		fmt.Sprintf("u1:%s:%s", hx("~="), hx("approx")), fmt.Sprintf("u2:%s:%s", hx(""), hx("ctx")), fmt.Sprintf("u3:%s:%s", hx("=~"), hx("")),
		fmt.Sprintf("v1:%s:%s", hx("~~"), hx("list")), fmt.Sprintf("v2:%s:%s", hx("in"), hx("list")), fmt.Sprintf("v3:%s:%s", hx(""), hx("list")), "z", "y", "w",
		fmt.Sprintf("u4:%s:%s", hx("=="), hx("comparison")), fmt.Sprintf("v4:%s:%s", hx("cmp"), hx("comparison"))}[r.Intn(19)] // (a user's operator may call its context "comparison" too)
}

func genExArg(r *rand.Rand) V {
	switch r.Intn(12) {
	case 0:
		return V{T: 'N'}
	case 1:
		return V{T: 's', S: ""}
	case 2:
		k := V{T: 'K', Form: []string{"n", "a", "as", "p"}[r.Intn(4)], Cfg: Cfg{Kind: 1 + r.Intn(4)}, Xs: []V{{T: 's', S: "x"}, {T: 'i', I: 2}}}
		if r.Intn(3) == 0 {
			k.Xs = nil // an initialised but empty Stack is a Stack
		}
		if r.Intn(4) == 0 {
			k.Cfg.Opt |= fNNest // the Stack's own option says nothing about the Condition that holds it
		}
		if r.Intn(4) == 0 {
			// the Stack encapsulates its own rendering; the Condition's pairs go around that, whatever it looks like
			k.Cfg.Enc = [][][]string{{{"<", ">"}}, {{"\""}}, {{"(", ")"}, {"'"}}}[r.Intn(3)]
		}
		return k
	case 3:
		return V{T: 'g', ID: 2, S: "strg"}
	case 4:
		// typed nil pointers (one of them to a Stringer) and zero-valued structs with a promoted String method:
		// non-nil interface values none of which has a usable text
		return []V{{T: 'o', Ty: 5, ID: 1}, {T: 'o', Ty: 27, ID: 1}, {T: 'o', Ty: 28, ID: 1}, {T: 'o', Ty: 29, ID: 1}}[r.Intn(4)]
	case 5:
		return V{T: 'b', B: true}
	case 6:
		if r.Intn(2) == 0 {
			// a Condition (any form) that holds a Stack: the outer Condition's expression is a Condition, not a Stack -
			// accepted under no-nesting, and IsNesting of the outer one stays false
			return V{T: 'C', Form: []string{"n", "a", "p"}[r.Intn(3)], Kw: "in", Op: "c1",
				Xs: []V{{T: 'K', Form: "n", Cfg: Cfg{Kind: 1 + r.Intn(4)}, Xs: []V{{T: 's', S: "x"}, {T: 'i', I: 2}}}}}
		}
		return V{T: 'C', Form: "n", Kw: "in", Op: "c1", Xs: []V{{T: 'i', I: 9}}}
	case 7:
		return V{T: 'Z', Form: "n"}
	case 8:
		return V{T: 'i', I: int64(r.Intn(100))}
	default:
		return V{T: 's', S: []string{"v", "val ue", "é", " "}[r.Intn(4)]}
	}
}

func genCondHist(r *rand.Rand, id string, tier string) string {
	start := "init"
	if r.Intn(3) != 0 {
		start = fmt.Sprintf("cond %s %s %s", genKwArg(r), genOpArg(r), genExArg(r))
	}
	maxOps := 8
	if tier == "thorough" {
		maxOps = 14
	}
	var ops []string
	if r.Intn(6) == 0 {
		// a Stack is already the expression when no-nesting is switched on: another Stack (any form) is still refused
		stk := func() string {
			return V{T: 'K', Form: []string{"n", "a", "as", "p"}[r.Intn(4)], Cfg: Cfg{Kind: 1 + r.Intn(4)}, Xs: []V{{T: 'i', I: int64(r.Intn(9))}}}.String()
		}
		ops = append(ops, "err 0", "nnest 0", "ex "+stk(), "nnest 1", "ex "+stk())
	}
	if r.Intn(10) == 0 {
		// the plainest Condition there is (string keyword, built-in operator, string expression), rendered with one set of
		// encapsulation characters, then - nothing looked at in between - with another set of the same shape
		one := []string{"\"", "'", "|", "`"}
		two := [][2]string{{"<", ">"}, {"[", "]"}, {"(", ")"}}
		a, b := r.Intn(len(one)), r.Intn(len(one))
		p, q := r.Intn(len(two)), r.Intn(len(two))
		ops = append(ops, "err 0", "kw "+V{T: 's', S: "mail"}.String(), fmt.Sprintf("op c%d", 1+r.Intn(6)), "ex "+V{T: 's', S: "val ue"}.String())
		if r.Intn(2) == 0 {
			ops = append(ops, "enc1 "+hx(one[a]), "reenc1 "+hx(one[b]), "reenc1 "+hx(one[a]))
		} else {
			ops = append(ops, "enc2 "+hx(two[p][0])+" "+hx(two[p][1]), "reenc2 "+hx(two[q][0])+" "+hx(two[q][1]), "reenc1 "+hx(one[a]))
		}
	}
	for i, n := 0, r.Intn(maxOps+1); i < n; i++ {
		switch r.Intn(14) {
		case 0, 1:
			ops = append(ops, "kw "+genKwArg(r).String())
		case 2, 3, 4:
			ops = append(ops, "op "+genOpArg(r))
		case 5, 6, 7, 8:
			ops = append(ops, "ex "+genExArg(r).String())
		case 9:
			ops = append(ops, fmt.Sprintf("nnest %d", r.Intn(2)))
		case 10:
			// (enc0 drops every pair: the next rendering shows the pairs set after it, however many there were before)
			ops = append(ops, []string{"nopad 1", "nopad 0", "paren 1", "paren 0", "enc1 " + hx("\""), "enc2 " + hx("<") + " " + hx(">"), "enc0", "enc1 " + hx("'"), "enc2 " + hx("[") + " " + hx("]"), "enc0",
				"reenc1 " + hx("'"), "reenc1 " + hx("\""), "reenc2 " + hx("[") + " " + hx("]"), "reenc2 " + hx("<") + " " + hx(">"), "reenc1 " + hx("|")}[r.Intn(15)])
		case 11:
			ops = append(ops, fmt.Sprintf("err %d", r.Intn(2)*7))
		case 12:
			if r.Intn(3) == 0 {
				ops = append(ops, fmt.Sprintf("ro %d", r.Intn(2)))
			} else {
				ops = append(ops, "init")
			}
		case 13:
			if r.Intn(2) == 0 {
				// keep a copy of the handle (what Push stores, what `held := c` keeps), then re-initialise the variable: the
				// documented assemble / store / Init / assemble-the-next loop. The copy holds what it had accepted.
				if r.Intn(3) == 0 {
					ops = append(ops, "ro 1") // Init replaces the instance of the variable; a read-only instance someone else holds stays as it is
				}
				if r.Intn(4) == 0 {
					// Free releases the handle it is called on (unless read-only), not the instance another handle refers to
					ops = append(ops, "hold", "free")
					if r.Intn(2) == 0 {
						ops = append(ops, "kw "+genKwArg(r).String(), "ex "+genExArg(r).String())
					}
					continue
				}
				ops = append(ops, "hold", []string{"init", fmt.Sprintf("cond %s %s %s", genKwArg(r), genOpArg(r), genExArg(r))}[r.Intn(2)])
			} else {
				ops = append(ops, fmt.Sprintf("cond %s %s %s", genKwArg(r), genOpArg(r), genExArg(r)))
			}
		}
	}
	return start + " | " + strings.Join(ops, " ; ")
}

func obsCond(c stackage.Condition) string {
	return guard(func() string {
		v := "1"
		if c.Valid() != nil {
			v = "0"
		}
		e := "0"
		if c.Err() != nil {
			e = "1"
		}
		// through the Condition into the Stack it holds, as a parent's Traverse does
		tv, tok := stackage.And().Push(c).Traverse(0, 0)
		return fmt.Sprintf("K%s O%s X%s V%s R%s N%s G%s S%s T%s:%s", hx(c.Keyword()), opStr(c.Operator()), Short(c.Expression())+formTag(c.Expression()), v, e,
			b01(c.CanNest()), b01(c.IsNesting()), hx(c.String()), Short(tv), b01(tok))
	})
}

// formTag: in which form a Stack / Condition is held (Expression returns the argument that was accepted, not its
// native twin): n native, a / as alias without / with its own String, p pointer to an alias
func formTag(x any) string {
	if _, ok := stackage.ConvertStack(x); !ok {
		if _, ok := stackage.ConvertCondition(x); !ok {
			return ""
		}
	}
	switch x.(type) {
	case stackage.Stack, stackage.Condition:
		return ":n"
	case AStack, ACond:
		return ":a"
	case SStack, SCond:
		return ":as"
	case *AStack, *ACond:
		return ":p"
	}
	return ":?"
}

func runCondHist(payload string) string {
	parts := strings.SplitN(payload, " | ", 2)
	var c, held stackage.Condition
	holding, detached := false, false
	apply := func(op string) string {
		t := strings.Fields(op)
		return guard(func() string {
			switch t[0] {
			case "hold":
				held, holding, detached = c, !c.IsZero(), false // a copy of the handle: the same instance until c is re-initialised
			case "free":
				c.Free()
				if c.IsZero() {
					detached = holding // the handle is zero now; the copy still refers to the instance, which is as it was
				}
			case "init":
				c.Init()
				detached = holding
			case "cond":
				kw, rest := parseV(t[1:])
				o := rest[0]
				ex, _ := parseV(rest[1:])
				c = stackage.Cond(Build(kw), opOf(o), Build(ex))
				detached = holding
			case "kw":
				x, _ := parseV(t[1:])
				c.SetKeyword(Build(x))
			case "op":
				c.SetOperator(opOf(t[1]))
			case "ex":
				x, _ := parseV(t[1:])
				c.SetExpression(Build(x))
			case "nnest":
				c.SetNoNesting(t[1] == "1")
			case "nopad":
				c.SetNoPadding(t[1] == "1")
			case "paren":
				c.SetParen(t[1] == "1")
			case "ro":
				c.SetReadOnly(t[1] == "1")
			case "enc1":
				c.SetEncap(unhx(t[1]))
			case "enc2":
				c.SetEncap([]string{unhx(t[1]), unhx(t[2])})
			case "enc0":
				c.SetEncap()
			case "reenc1": // dropped and set again in one go: nothing is looked at in between
				c.SetEncap()
				c.SetEncap(unhx(t[1]))
			case "reenc2":
				c.SetEncap()
				c.SetEncap([]string{unhx(t[1]), unhx(t[2])})
			case "err":
				c.SetErr(errOf(atoi64(t[1])))
			default:
				panic("bad op")
			}
			return "-"
		})
	}
	var outs []string
	obs := func() string {
		if holding && detached {
			return obsCond(c) + " H[ " + obsCond(held) + " ]"
		}
		return obsCond(c)
	}
	outs = append(outs, apply(parts[0])+" "+obs())
	if len(parts) > 1 && strings.TrimSpace(parts[1]) != "" {
		for _, op := range strings.Split(parts[1], " ; ") {
			outs = append(outs, apply(op)+" "+obs())
		}
	}
	return strings.Join(outs, " ; ")
}
