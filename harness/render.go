package main

// stream `render` (C02): random expression trees, String() compared byte for byte.
// stream `strunit`: the private string helpers through VerifCall.

import (
	"sync"
	"sync/atomic"
	"fmt"
	"math/rand"
	"strings"

	stackage "github.com/JesseCoretta/go-stackage"
)

func init() {
	streams["render"] = &stream{gen: genRender, run: runRender}
	streams["strunit"] = &stream{gen: genStrUnit, run: runStrUnit}
	streams["rerender"] = &stream{gen: genRerender, run: runRerender}
}

var leafTexts = []string{"a", "b", "cn", "é", "日本", "x y", " lead", "trail ", "two  blanks", "tab\there", "", " nb", "nl\n", "(", "&", "AND", "ü\t ö",
	// nothing but white space of one sort or another (a leaf is still a leaf), and texts that already look encapsulated
	" ", "\t", "  ", " \t ", "\u00a0", "\u3000", "\u2003", "\u0085", "\n", "\"q\"", "'", "\"", "<x>", "[y]", "«z»", "(p)", "{{w}}"}

func genLeafText(r *rand.Rand) string {
	if r.Intn(3) == 0 {
		return leafTexts[r.Intn(len(leafTexts))]
	}
	return fmt.Sprintf("v%d", r.Intn(50))
}

func genRenderLeaf(r *rand.Rand) V {
	switch r.Intn(10) {
	case 0:
		return V{T: 'i', I: int64(r.Intn(200) - 100)}
	case 1:
		return V{T: 'b', B: r.Intn(2) == 0}
	case 2:
		return V{T: 'n', Ty: 1, S: []string{"1.5", "3", "-0.25", "1e+21"}[r.Intn(4)]}
	case 3:
		return V{T: 'g', ID: 1 + r.Intn(5), S: genLeafText(r)}
	default:
		return V{T: 's', S: genLeafText(r)}
	}
}

var symbols = []string{"&", "&&", "|", "∧", "!", "and_also", "Plus"}
var delims = []string{",", " ", ";", "·", ", "}
var encs = [][]string{{"\""}, {"'"}, {"<", ">"}, {"[", "]"}, {"«", "»"}, {"{{", "}}"}, {"[", ">"}, {"(", "»"}}

func genRenderCfg(r *rand.Rand, kind int) Cfg {
	c := Cfg{Kind: kind}
	if r.Intn(8) == 0 {
		c.Err = 7 // an error someone recorded (a refused Push, SetErr) is no reason not to render
	}
	if r.Intn(8) == 0 {
		c.Opt |= fNNest // set after the content is in place: what is there is rendered as what it is
	}
	for _, f := range []int{fParen, fFold, fNoPad, fLOnce} {
		if r.Intn(3) == 0 {
			c.Opt |= f
		}
	}
	if kind == 4 {
		if r.Intn(2) == 0 {
			c.Ljc = delims[r.Intn(len(delims))]
		}
	} else if r.Intn(4) == 0 {
		c.Sym = symbols[r.Intn(len(symbols))]
	}
	used := map[string]bool{}
	for i, n := 0, r.Intn(3); i < n && r.Intn(2) == 0; i++ {
		e := encs[r.Intn(len(encs))]
		clash := false
		for _, x := range e {
			if used[x] {
				clash = true
			}
		}
		if clash {
			continue
		}
		for _, x := range e {
			used[x] = true
		}
		c.Enc = append(c.Enc, e)
	}
	return c
}

func genRenderCond(r *rand.Rand, depth int) V {
	c := Cfg{}
	if r.Intn(4) == 0 {
		c.Opt |= fParen
	}
	if r.Intn(4) == 0 {
		c.Opt |= fNoPad
	}
	if r.Intn(3) == 0 {
		c.Enc = append(c.Enc, encs[r.Intn(len(encs))])
	}
	kw := []string{"cn", "k", "mail", "", "key word"}[r.Intn(5)]
	op := []string{"c1", "c2", "c3", "c6", "c0", "c9", "-", fmt.Sprintf("u1:%s:%s", hx("~="), hx("approx"))}[r.Intn(8)]
	var ex V
	switch r.Intn(8) {
	case 0:
		ex = V{T: 'N'}
	case 1:
		if depth > 0 {
			ex = genRenderStack(r, depth-1, []int{1, 2, 3, 4}[r.Intn(4)])
			break
		}
		fallthrough
	default:
		ex = genRenderLeaf(r)
	}
	if ex.T == 's' && ex.S == "" {
		ex.S = "e" // SetExpression("") is refused: not a buildable state
	}
	return V{T: 'C', Form: "n", Cfg: c, Kw: kw, Op: op, Xs: []V{ex}}
}

func genRenderStack(r *rand.Rand, depth int, kind int) V {
	st := V{T: 'K', Form: "n", Cfg: genRenderCfg(r, kind)}
	for i, n := 0, r.Intn(5); i < n; i++ {
		switch {
		case depth > 0 && r.Intn(3) == 0:
			k := []int{1, 2, 3, 3, 4, 6}[r.Intn(6)]
			st.Xs = append(st.Xs, genRenderStack(r, depth-1, k))
		case r.Intn(5) == 0:
			st.Xs = append(st.Xs, genRenderCond(r, depth))
		case r.Intn(14) == 0:
			// a zero-valued Stack or Condition (native, alias, pointer to alias): invalid, contributes nothing
			st.Xs = append(st.Xs, V{T: []byte{'Z', 'Y'}[r.Intn(2)], Form: []string{"n", "a", "p"}[r.Intn(3)]})
		default:
			st.Xs = append(st.Xs, genRenderLeaf(r))
		}
	}
	return st
}

func genRender(r *rand.Rand, id string, tier string) string {
	d := 3
	if tier == "thorough" {
		d = 5
	}
	return genRenderStack(r, r.Intn(d+1), []int{1, 2, 3, 4}[r.Intn(4)]).String()
}

func runRender(payload string) string {
	v, _ := parseV(strings.Fields(payload))
	s := BuildStack(v)
	want := s.String()
	// the rendering of an unchanging tree does not depend on who else is rendering it (or a part of it) at the same time
	if len(v.Xs) > 0 {
		var wg sync.WaitGroup
		var bad int32
		subs := []stackage.Stack{s}
		for i := 0; i < s.Len(); i++ {
			if x, _ := s.Index(i); x != nil {
				if sub, ok := stackage.ConvertStack(x); ok {
					subs = append(subs, sub)
				}
			}
		}
		wants := make([]string, len(subs))
		for i, sub := range subs {
			wants[i] = sub.String()
		}
		for g := 0; g < 6; g++ {
			wg.Add(1)
			go func(g int) {
				defer wg.Done()
				defer func() {
					if recover() != nil {
						atomic.AddInt32(&bad, 1)
					}
				}()
				for k := 0; k < 4; k++ {
					i := (g + k) % len(subs)
					if subs[i].String() != wants[i] {
						atomic.AddInt32(&bad, 1)
					}
				}
			}(g)
		}
		wg.Wait()
		if bad > 0 {
			return "S" + hx(want) + " PARALLEL-RENDERING-DIFFERS"
		}
	}
	return "S" + hx(want)
}

// strunit: "<fn> <args...>"
func genStrUnit(r *rand.Rand, id string, tier string) string {
	rt := func() string {
		var b strings.Builder
		for i, n := 0, r.Intn(8); i < n; i++ {
			b.WriteString([]string{" ", "\t", "a", "é", "  ", "x", " ", "\n", "b c"}[r.Intn(9)])
		}
		return b.String()
	}
	switch r.Intn(4) {
	case 0:
		return "condense " + hx(rt())
	case 1:
		return fmt.Sprintf("pad %d %s", r.Intn(2), hx(rt()))
	case 2:
		return fmt.Sprintf("fold %d %s", r.Intn(2), hx([]string{"AND", "and", "OR", "Not", "", "LIST"}[r.Intn(6)]))
	default:
		c := Cfg{}
		for i, n := 0, r.Intn(3); i < n; i++ {
			c.Enc = append(c.Enc, encs[r.Intn(len(encs))])
		}
		return fmt.Sprintf("encap %s %s", c, hx(rt()))
	}
}

func runStrUnit(payload string) string {
	t := strings.Fields(payload)
	switch t[0] {
	case "condense":
		return "S" + hx(stackage.VerifCall("condenseWHSP", unhx(t[1]))[0].(string))
	case "pad":
		return "S" + hx(stackage.VerifCall("padValue", t[1] == "1", unhx(t[2]))[0].(string))
	case "fold":
		return "S" + hx(stackage.VerifCall("foldValue", t[1] == "1", unhx(t[2]))[0].(string))
	case "encap":
		c := parseCfg(t[1])
		return "S" + hx(stackage.VerifCall("encapValue", c.Enc, unhx(t[2]))[0].(string))
	}
	return "BADOP"
}

// rerender (C02): the same tree rendered repeatedly while presentation options are switched in between
// (on the root "." or on a direct child by index): String() must follow the *current* options every time.
func genRerender(r *rand.Rand, id string, tier string) string {
	t := genRenderStack(r, 1+r.Intn(2), []int{1, 2, 3, 4}[r.Intn(4)])
	var ops []string
	ops = append(ops, "render")
	for i, n := 0, 2+r.Intn(6); i < n; i++ {
		target := "."
		if len(t.Xs) > 0 && r.Intn(2) == 0 {
			target = fmt.Sprint(r.Intn(len(t.Xs)))
		}
		switch r.Intn(6) {
		case 0:
			ops = append(ops, "render")
		case 5:
			// another encapsulation pair for the root: refused if one of its characters is in use by ANY stored pair
			e := encs[r.Intn(len(encs))]
			var hs []string
			for _, x := range e {
				hs = append(hs, hx(x))
			}
			ops = append(ops, "enc "+strings.Join(hs, "/"), "render")
		default:
			ops = append(ops, fmt.Sprintf("opt %s %s %s", target, []string{"paren", "fold", "nopad", "lonce"}[r.Intn(4)], []string{"0", "1", "t"}[r.Intn(3)]))
			ops = append(ops, "render")
		}
	}
	return t.String() + " | " + strings.Join(ops, " ; ")
}

func runRerender(payload string) string {
	parts := strings.SplitN(payload, " | ", 2)
	v, _ := parseV(strings.Fields(parts[0]))
	s := BuildStack(v)
	var outs []string
	for _, op := range strings.Split(parts[1], " ; ") {
		t := strings.Fields(op)
		switch t[0] {
		case "render":
			outs = append(outs, "S"+hx(s.String()))
		case "enc":
			var e []string
			for _, h := range strings.Split(t[1], "/") {
				e = append(e, unhx(h))
			}
			s.SetEncap(e)
			outs = append(outs, "-")
		case "opt":
			tgt := s
			ok := true
			if t[1] != "." {
				x, _ := s.Index(atoi64(t[1]))
				tgt, ok = stackage.ConvertStack(x)
			}
			if ok {
				var st []bool
				if t[3] != "t" {
					st = []bool{t[3] == "1"}
				}
				switch t[2] {
				case "paren":
					tgt.SetParen(st...)
				case "fold":
					tgt.SetFold(st...)
				case "nopad":
					tgt.SetNoPadding(st...)
				case "lonce":
					tgt.SetLeadOnce(st...)
				}
			}
			outs = append(outs, "-")
		}
	}
	return strings.Join(outs, " ; ")
}
