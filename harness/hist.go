package main

// stream `hist` (C01, C03, C08 indices): histories of content mutators with a
// full observation after every step.

import (
	"fmt"
	"math"
	"math/rand"
	"strconv"
	"strings"

	stackage "github.com/JesseCoretta/go-stackage"
)

func init() {
	// hist: every position argument addresses an existing element (C01's quantifier);
	// histx: indices from the extremes and just outside the range (C08)
	streams["hist"] = &stream{gen: func(r *rand.Rand, id, tier string) string { return genHist(r, id, tier, false) }, run: runHist}
	streams["histx"] = &stream{gen: func(r *rand.Rand, id, tier string) string { return genHist(r, id, tier, true) }, run: runHist}
}

// genPos: an index that addresses an existing position of a stack of length n
// under the given index options (n > 0)
func genPos(r *rand.Rand, n int, neg, fwd bool) int64 {
	if neg && r.Intn(4) == 0 {
		return int64(-1 - r.Intn(n))
	}
	if fwd && r.Intn(6) == 0 {
		return int64(n + r.Intn(3))
	}
	return int64(r.Intn(n))
}

var nextLeaf int

func genLeaf(r *rand.Rand) V {
	nextLeaf++
	switch r.Intn(10) {
	case 0:
		return V{T: 's', S: fmt.Sprintf("v%d", nextLeaf)}
	case 1:
		return V{T: 'b', B: r.Intn(2) == 0}
	case 2:
		return V{T: 'K', Form: "n", Cfg: Cfg{Kind: []int{1, 2, 3, 4, 6}[r.Intn(5)]}}
	default:
		return V{T: 'i', I: int64(nextLeaf)}
	}
}

func genElem(r *rand.Rand) V {
	if r.Intn(6) == 0 {
		return V{T: 'N'}
	}
	return genLeaf(r)
}

func genIndex(r *rand.Rand, n int) int64 {
	switch r.Intn(12) {
	case 0:
		return math.MinInt64
	case 1:
		return math.MaxInt64
	case 2:
		return math.MinInt64 + 1
	case 3:
		return int64(-n - 1)
	case 4:
		return int64(n + 1)
	case 5:
		return int64(n)
	case 6:
		return int64(-n)
	case 7:
		return -1
	}
	if n == 0 {
		return int64(r.Intn(3) - 1)
	}
	return int64(r.Intn(n+2) - 1)
}

func genHist(r *rand.Rand, id string, tier string, extremes bool) string {
	nextLeaf = 0
	c := Cfg{Kind: []int{1, 2, 3, 4, 6}[r.Intn(5)]}
	if r.Intn(2) == 0 {
		c.Cap = 1 + r.Intn(6)
	}
	if r.Intn(3) == 0 {
		c.Fifo = true
	}
	if r.Intn(2) == 0 {
		c.Opt |= fNeg
	}
	if r.Intn(2) == 0 {
		c.Opt |= fFwd
	}
	n0 := r.Intn(5)
	if c.Cap != 0 && n0 > c.Cap {
		n0 = c.Cap
	}
	st := V{T: 'K', Form: "n", Cfg: c}
	for i := 0; i < n0; i++ {
		st.Xs = append(st.Xs, genElem(r))
	}
	maxOps := 12
	if tier == "thorough" {
		maxOps = 60
	}
	nops := 1 + r.Intn(maxOps)
	live := BuildStack(st) // only used to aim indices at the current length
	n := n0
	neg, fwd := c.Opt&fNeg != 0, c.Opt&fFwd != 0
	var ops []string
	idx := func() int64 {
		if extremes || n == 0 {
			return genIndex(r, n)
		}
		return genPos(r, n, false, false)
	}
	ridx := func() int64 {
		if extremes || n == 0 {
			return genIndex(r, n)
		}
		return genPos(r, n, neg, fwd)
	}
	for i := 0; i < nops; i++ {
		n = guardInt(func() int { return live.Len() })
		if !extremes && n == 0 && r.Intn(3) != 0 {
			ops = append(ops, "push "+genLeaf(r).String()+" "+genElem(r).String())
			applyOp(live, ops[len(ops)-1])
			continue
		}
		switch r.Intn(16) {
		case 0, 1, 2:
			k := r.Intn(4)
			var vs []string
			for j := 0; j < k; j++ {
				vs = append(vs, genElem(r).String())
			}
			ops = append(ops, strings.TrimSpace("push "+strings.Join(vs, " ")))
		case 3, 4:
			ops = append(ops, "pop")
		case 5, 6:
			if extremes {
				ops = append(ops, fmt.Sprintf("ins %s %d", genElem(r), genIndex(r, n)))
			} else {
				ops = append(ops, fmt.Sprintf("ins %s %d", genElem(r), int64(r.Intn(n+4)-2)))
			}
		case 7, 8:
			if !extremes && n == 0 {
				ops = append(ops, "pop")
			} else {
				ops = append(ops, fmt.Sprintf("rem %d", ridx()))
			}
		case 9, 10:
			if !extremes && n == 0 {
				ops = append(ops, "rev")
			} else {
				ops = append(ops, fmt.Sprintf("rep %s %d", genElem(r), idx()))
			}
		case 11, 12:
			if !extremes && n == 0 {
				ops = append(ops, "rev")
			} else {
				ops = append(ops, fmt.Sprintf("swap %d %d", idx(), idx()))
			}
		case 13:
			ops = append(ops, "rev")
		case 14:
			if r.Intn(3) == 0 {
				ops = append(ops, "reset")
			} else {
				ops = append(ops, "rev")
			}
		case 15:
			switch r.Intn(3) {
			case 0:
				ops = append(ops, "fifo")
			case 1:
				neg = r.Intn(2) == 1
				ops = append(ops, fmt.Sprintf("neg %s", b01(neg)))
			case 2:
				fwd = r.Intn(2) == 1
				ops = append(ops, fmt.Sprintf("fwd %s", b01(fwd)))
			}
		}
		applyOp(live, ops[len(ops)-1])
	}
	return st.String() + " | " + strings.Join(ops, " ; ")
}

func obsStack(s stackage.Stack) string {
	return guard(func() string {
		n := s.Len()
		var idx []string
		for i := -n - 1; i <= n+1; i++ {
			v, ok := s.Index(i)
			idx = append(idx, Short(v)+":"+b01(ok))
		}
		fv, fok := s.Front()
		bv, bok := s.Back()
		return fmt.Sprintf("L%d [%s] F%s:%s B%s:%s E%s c%d a%d u%s", n, strings.Join(idx, " "), Short(fv), b01(fok), Short(bv), b01(bok),
			b01(s.IsEmpty()), s.Cap(), s.Avail(), b01(s.IsFull()))
	})
}

func b01(b bool) string {
	if b {
		return "1"
	}
	return "0"
}

func atoi64(s string) int {
	n, err := strconv.ParseInt(s, 10, 64)
	if err != nil {
		panic(err)
	}
	return int(n)
}

func guardInt(f func() int) (n int) {
	defer func() {
		if recover() != nil {
			n = 0
		}
	}()
	return f()
}

// applyOp applies one textual operation to s and returns its printed result
func applyOp(s stackage.Stack, op string) string {
	t := strings.Fields(op)
	return guard(func() string {
		switch t[0] {
		case "push":
			var vs []any
			rest := t[1:]
			for len(rest) > 0 {
				var x V
				x, rest = parseV(rest)
				vs = append(vs, Build(x))
			}
			s.Push(vs...)
			return "-"
		case "pop":
			x, ok := s.Pop()
			return Short(x) + ":" + b01(ok)
		case "ins":
			x, rest := parseV(t[1:])
			return b01(s.Insert(Build(x), atoi64(rest[0])))
		case "rem":
			x, ok := s.Remove(atoi64(t[1]))
			return Short(x) + ":" + b01(ok)
		case "rep":
			x, rest := parseV(t[1:])
			return b01(s.Replace(Build(x), atoi64(rest[0])))
		case "swap":
			s.Swap(atoi64(t[1]), atoi64(t[2]))
			return "-"
		case "rev":
			s.Reverse()
			return "-"
		case "reset":
			s.Reset()
			return "-"
		case "fifo":
			s.SetFIFO(true)
			return "-"
		case "neg":
			s.SetNegativeIndices(t[1] == "1")
			return "-"
		case "fwd":
			s.SetForwardIndices(t[1] == "1")
			return "-"
		}
		panic("bad op " + t[0])
	})
}

func runHist(payload string) string {
	parts := strings.SplitN(payload, " | ", 2)
	v, _ := parseV(strings.Fields(parts[0]))
	s := BuildStack(v)
	var outs []string
	outs = append(outs, "init "+obsStack(s))
	if len(parts) < 2 || strings.TrimSpace(parts[1]) == "" {
		return strings.Join(outs, " ; ")
	}
	for _, op := range strings.Split(parts[1], " ; ") {
		ret := applyOp(s, op)
		outs = append(outs, ret+" "+obsStack(s))
	}
	return strings.Join(outs, " ; ")
}
