package main

// stream `hist` (C01, C03, C08 indices): histories of content mutators with a
// full observation after every step.

import (
	"fmt"
	"math"
	"math/rand"
	"strconv"
	"strings"

	stackage "github.com/JesseCoretta/go-stackage"
)

func init() {
	// hist: every position argument addresses an existing element (C01's quantifier);
	// histx: indices from the extremes and just outside the range (C08)
	streams["hist"] = &stream{gen: func(r *rand.Rand, id, tier string) string { return genHist(r, id, tier, false) }, run: runHist}
	streams["histx"] = &stream{gen: func(r *rand.Rand, id, tier string) string { return genHist(r, id, tier, true) }, run: runHist}
	streams["capx"] = &stream{gen: genCapx, run: runHist}
	streams["resets"] = &stream{gen: genResets, run: runHist}
	streams["nest"] = &stream{gen: genNest, run: runHist}
	streams["pol"] = &stream{gen: genPol, run: runHist}
	streams["xfer"] = &stream{gen: genXfer, run: runHist}
	streams["xferro"] = &stream{gen: genXferRO, run: runHist}
}

// genPos: an index that addresses an existing position of a stack of length n
// under the given index options (n > 0)
func genPos(r *rand.Rand, n int, neg, fwd bool) int64 {
	if neg && r.Intn(4) == 0 {
		return int64(-1 - r.Intn(n))
	}
	if fwd && r.Intn(6) == 0 {
		return int64(n + r.Intn(3))
	}
	return int64(r.Intn(n))
}

var nextLeaf int

func genLeaf(r *rand.Rand) V {
	nextLeaf++
	switch r.Intn(10) {
	case 0:
		return V{T: 's', S: fmt.Sprintf("v%d", nextLeaf)}
	case 1:
		return V{T: 'b', B: r.Intn(2) == 0}
	case 2:
		return V{T: 'K', Form: "n", Cfg: Cfg{Kind: []int{1, 2, 3, 4, 6}[r.Intn(5)]}}
	default:
		return V{T: 'i', I: int64(nextLeaf)}
	}
}

func genElem(r *rand.Rand) V {
	if r.Intn(6) == 0 {
		return V{T: 'N'}
	}
	if r.Intn(30) == 0 {
		// zero-valued instances (native, alias, pointer to one): values like any other, each takes its slot
		return V{T: []byte{'Z', 'Y'}[r.Intn(2)], Form: []string{"n", "a", "p"}[r.Intn(3)]}
	}
	if r.Intn(14) == 0 {
		// values that are not nil although there is nothing behind them: an element like any other (typed nil pointers;
		// never 5:2 / 5:3 next to 20:1 / 20:2, which are the same values)
		return []V{{T: 'o', Ty: 5, ID: 1}, {T: 'o', Ty: 20, ID: 3}, {T: 'o', Ty: 20, ID: 4}, {T: 'o', Ty: 27, ID: 1}, {T: 'o', Ty: 20, ID: 1}}[r.Intn(5)]
	}
	return genLeaf(r)
}

func genIndex(r *rand.Rand, n int) int64 {
	switch r.Intn(12) {
	case 0:
		return math.MinInt64
	case 1:
		return math.MaxInt64
	case 2:
		return math.MinInt64 + 1
	case 3:
		return int64(-n - 1)
	case 4:
		return int64(n + 1)
	case 5:
		return int64(n)
	case 6:
		return int64(-n)
	case 7:
		return -1
	}
	if n == 0 {
		return int64(r.Intn(3) - 1)
	}
	return int64(r.Intn(n+2) - 1)
}

func genHist(r *rand.Rand, id string, tier string, extremes bool) string {
	nextLeaf = 0
	if tier == "thorough" && !extremes {
		// exhaustive first: every short history over a small alphabet (histenum.go), then random ones
		if idx := caseIndex(id); idx < histEnumCount() {
			r.Intn(2)
			return histEnumCase(idx)
		}
	}
	if !extremes && r.Intn(40) == 0 {
		return genHistBulk(r)
	}
	c := Cfg{Kind: []int{1, 2, 3, 4, 6}[r.Intn(5)]}
	if r.Intn(2) == 0 {
		c.Cap = 1 + r.Intn(6)
	}
	if r.Intn(3) == 0 {
		c.Fifo = true
	}
	if r.Intn(6) == 0 {
		c.Ppf = 1 + r.Intn(4)
	}
	if r.Intn(4) == 0 {
		c.Mtx = true // a refused call must release the lock it took (a later call would hang)
	}
	if r.Intn(2) == 0 {
		c.Opt |= fNeg
	}
	if r.Intn(2) == 0 {
		c.Opt |= fFwd
	}
	n0 := r.Intn(5)
	if c.Cap != 0 && n0 > c.Cap {
		n0 = c.Cap
	}
	st := V{T: 'K', Form: "n", Cfg: c}
	for i := 0; i < n0; i++ {
		st.Xs = append(st.Xs, genElem(r))
	}
	maxOps := 12
	if tier == "thorough" {
		maxOps = 60
	}
	nops := 1 + r.Intn(maxOps)
	liveLit := st
	liveLit.Cfg.Mtx = false     // the generator must not depend on the lock discipline of the code under test
	live := BuildStack(liveLit) // only used to aim indices at the current length
	n := n0
	neg, fwd := c.Opt&fNeg != 0, c.Opt&fFwd != 0
	var ops []string
	idx := func() int64 {
		if extremes || n == 0 {
			return genIndex(r, n)
		}
		return genPos(r, n, false, false)
	}
	ridx := func() int64 {
		if extremes || n == 0 {
			return genIndex(r, n)
		}
		return genPos(r, n, neg, fwd)
	}
	for i := 0; i < nops; i++ {
		n = guardInt(func() int { return live.Len() })
		if !extremes && n == 0 && r.Intn(3) != 0 {
			ops = append(ops, "push "+genLeaf(r).String()+" "+genElem(r).String())
			applyOp(live, ops[len(ops)-1])
			continue
		}
		switch r.Intn(16) {
		case 0, 1, 2:
			k := r.Intn(4)
			var vs []string
			for j := 0; j < k; j++ {
				vs = append(vs, genElem(r).String())
			}
			ops = append(ops, strings.TrimSpace("push "+strings.Join(vs, " ")))
		case 3, 4:
			ops = append(ops, "pop")
		case 5, 6:
			if extremes {
				ops = append(ops, fmt.Sprintf("ins %s %d", genElem(r), genIndex(r, n)))
			} else {
				ops = append(ops, fmt.Sprintf("ins %s %d", genElem(r), int64(r.Intn(n+4)-2)))
			}
		case 7, 8:
			if !extremes && n == 0 {
				ops = append(ops, "pop")
			} else {
				ops = append(ops, fmt.Sprintf("rem %d", ridx()))
			}
		case 9, 10:
			if !extremes && n == 0 {
				ops = append(ops, "rev")
			} else {
				x, i := genElem(r), idx()
				if cur, ok := guardAny(func() any { y, _ := live.Index(int(i)); return y }).(int); ok && cur >= 0 && i >= 0 && i < int64(n) && r.Intn(2) == 0 {
					// a look-alike of what is there (a pointer to an equal int: IsEqual would not tell them apart): replaced all the same
					x = V{T: 'o', Ty: 32, ID: cur}
				}
				ops = append(ops, fmt.Sprintf("rep %s %d", x, i))
			}
		case 11, 12:
			if !extremes && n == 0 {
				ops = append(ops, "rev")
			} else {
				ops = append(ops, fmt.Sprintf("swap %d %d", idx(), idx()))
			}
		case 13:
			ops = append(ops, "rev")
		case 14:
			if r.Intn(3) == 0 {
				ops = append(ops, "reset")
			} else {
				ops = append(ops, "rev")
			}
		case 15:
			switch r.Intn(5) {
			case 3:
				ops = append(ops, "fifo0") // once on, FIFO mode can never be switched off
			case 4:
				ops = append(ops, fmt.Sprintf("ppol %d", r.Intn(5))) // the list semantics hold on the policy path too
			case 0:
				ops = append(ops, "fifo")
			case 1:
				neg = r.Intn(2) == 1
				ops = append(ops, fmt.Sprintf("neg %s", b01(neg)))
			case 2:
				fwd = r.Intn(2) == 1
				ops = append(ops, fmt.Sprintf("fwd %s", b01(fwd)))
			}
		}
		applyOp(live, ops[len(ops)-1])
	}
	return st.String() + " | " + strings.Join(ops, " ; ")
}

// genHistBulk: long histories. Anything that depends on how much was pushed or popped before (growth and shrinking of the
// underlying allocation at 32 / 64 / 128 ... slots, amortised rebuilds, thresholds) only shows after many elements: a large
// batch (or several), then a long run of pops / removes draining most or all of it, then growth again.
func genHistBulk(r *rand.Rand) string {
	c := Cfg{Kind: []int{1, 2, 3, 4, 6}[r.Intn(5)]}
	if r.Intn(3) == 0 {
		c.Fifo = true
	}
	if r.Intn(4) == 0 {
		c.Cap = 30 + r.Intn(120)
	}
	if r.Intn(4) == 0 {
		c.Mtx = true
	}
	if r.Intn(8) == 0 {
		c.Ppf = 4 // accepts everything: the policy path
	}
	st := V{T: 'K', Form: "n", Cfg: c}
	var ops []string
	total := 33 + r.Intn(110)
	n := 0
	seq := 0
	pushN := func(k int) {
		var vs []string
		for j := 0; j < k; j++ {
			seq++
			if r.Intn(25) == 0 {
				vs = append(vs, "N")
			} else {
				vs = append(vs, V{T: 'i', I: int64(seq)}.String())
			}
		}
		ops = append(ops, "push "+strings.Join(vs, " "))
		n += k
		if c.Cap != 0 && n > c.Cap {
			n = c.Cap
		}
	}
	for left := total; left > 0; {
		k := left
		if r.Intn(2) == 0 {
			k = 1 + r.Intn(left)
		}
		pushN(k)
		left -= k
	}
	drain := n/2 + r.Intn(n/2+2)
	remEvery := 12
	if r.Intn(5) < 3 {
		remEvery = 1 << 30 // pops only: a Remove rebuilds the slice (and with it whatever depends on the allocation)
	}
	for i := 0; i < drain && n > 0; i++ {
		switch r.Intn(remEvery) {
		case 0:
			ops = append(ops, fmt.Sprintf("rem %d", r.Intn(n)))
		case 1:
			ops = append(ops, fmt.Sprintf("rem %d", n-1))
		default:
			ops = append(ops, "pop")
		}
		n-- // (a remove aimed at a nil slot does nothing; the bookkeeping is only used for aiming)
	}
	for i, m := 0, r.Intn(6); i < m; i++ {
		switch r.Intn(5) {
		case 0:
			pushN(1 + r.Intn(40))
		case 1:
			ops = append(ops, fmt.Sprintf("ins %s %d", V{T: 'i', I: int64(1000 + i)}, r.Intn(n+2)))
			n++
		case 2:
			ops = append(ops, "rev")
		case 3:
			ops = append(ops, "pop")
			if n > 0 {
				n--
			}
		case 4:
			if n > 1 {
				ops = append(ops, fmt.Sprintf("swap %d %d", r.Intn(n), r.Intn(n)))
			} else {
				ops = append(ops, "reset")
				n = 0
			}
		}
	}
	return st.String() + " | " + strings.Join(ops, " ; ")
}

func obsStack(s stackage.Stack) string {
	return guard(func() string {
		n := s.Len()
		var idx []string
		for i := -n - 1; i <= n+1; i++ {
			v, ok := s.Index(i)
			idx = append(idx, Short(v)+":"+b01(ok))
		}
		fv, fok := s.Front()
		bv, bok := s.Back()
		return fmt.Sprintf("L%d [%s] F%s:%s B%s:%s E%s c%d a%d u%s N%s G%s R%s", n, strings.Join(idx, " "), Short(fv), b01(fok), Short(bv), b01(bok),
			b01(s.IsEmpty()), s.Cap(), s.Avail(), b01(s.IsFull()), b01(s.CanNest()), b01(s.IsNesting()), errClass(s.Err()))
	})
}

func b01(b bool) string {
	if b {
		return "1"
	}
	return "0"
}

func atoi64(s string) int {
	n, err := strconv.ParseInt(s, 10, 64)
	if err != nil {
		panic(err)
	}
	return int(n)
}

func guardInt(f func() int) (n int) {
	defer func() {
		if recover() != nil {
			n = 0
		}
	}()
	return f()
}

func guardAny(f func() any) (x any) {
	defer func() {
		if recover() != nil {
			x = nil
		}
	}()
	return f()
}

// applyOp applies one textual operation to s and returns its printed result
func applyOp(s stackage.Stack, op string) string {
	t := strings.Fields(op)
	return guard(func() string {
		switch t[0] {
		case "push":
			var vs []any
			rest := t[1:]
			for len(rest) > 0 {
				var x V
				x, rest = parseV(rest)
				vs = append(vs, Build(x))
			}
			s.Push(vs...)
			return "-"
		case "pop":
			x, ok := s.Pop()
			return Short(x) + ":" + b01(ok)
		case "cfg":
			// the whole configuration record (kind, capacity, options, texts, error) and which policies are present
			st := stackage.VerifDump(s)
			bits := ""
			for _, f := range []uintptr{st.Ppf, st.Vpf, st.Rpf, st.Eqf, st.Umf, st.Maf, st.Evl, st.Lss} {
				bits += b01(f != 0)
			}
			return "D{" + cfgOf(st).String() + "}P" + bits
		case "ins":
			x, rest := parseV(t[1:])
			return b01(s.Insert(Build(x), atoi64(rest[0])))
		case "rem":
			x, ok := s.Remove(atoi64(t[1]))
			return Short(x) + ":" + b01(ok)
		case "rep":
			x, rest := parseV(t[1:])
			return b01(s.Replace(Build(x), atoi64(rest[0])))
		case "swap":
			s.Swap(atoi64(t[1]), atoi64(t[2]))
			return "-"
		case "rev":
			s.Reverse()
			return "-"
		case "reset":
			s.Reset()
			return "-"
		case "fifo":
			s.SetFIFO(true)
			return "-"
		case "fifo0":
			s.SetFIFO(false)
			return "-"
		case "neg":
			s.SetNegativeIndices(t[1] == "1")
			return "-"
		case "fwd":
			s.SetForwardIndices(t[1] == "1")
			return "-"
		case "nnest":
			s.SetNoNesting(t[1] == "1")
			return "-"
		case "ro":
			s.SetReadOnly(t[1] == "1")
			return "-"
		case "ppol":
			s.SetPushPolicy(pushPolicy(atoi64(t[1])))
			return "-"
		case "clrerr":
			s.SetErr(nil)
			return "-"
		case "xferto": // <source stack> transferred into the root
			x, _ := parseV(t[1:])
			src := BuildStack(x)
			ok := src.Transfer(s)
			return b01(ok) + " src{" + obsStack(src) + "}"
		case "xferself": // the root transferred into itself (generated for capped stacks only: without a capacity it never returns)
			return b01(s.Transfer(s))
		case "xfer": // the root transferred into <dest value>
			x, _ := parseV(t[1:])
			dest := Build(x)
			before := deepDump(s)
			ok := s.Transfer(dest)
			d := "-"
			if ds, isS := stackage.ConvertStack(dest); isS {
				d = obsStack(ds)
			}
			// the source's content AND configuration (lock bookkeeping included) must be exactly as before
			return b01(ok) + " dst{" + d + "} sd" + b01(before != deepDump(s))
		}
		panic("bad op " + t[0])
	})
}

func runHist(payload string) string {
	parts := strings.SplitN(payload, " | ", 2)
	v, _ := parseV(strings.Fields(parts[0]))
	s := BuildStack(v)
	var outs []string
	outs = append(outs, "init "+obsStack(s))
	if len(parts) < 2 || strings.TrimSpace(parts[1]) == "" {
		return strings.Join(outs, " ; ")
	}
	var last []any // the slice the latest batch was spread from: `again` offers that very slice once more
	for _, op := range strings.Split(parts[1], " ; ") {
		var ret string
		if strings.HasPrefix(op, "push ") || op == "push" {
			ret = guard(func() string {
				last = nil
				rest := strings.Fields(op)[1:]
				for len(rest) > 0 {
					var x V
					x, rest = parseV(rest)
					last = append(last, Build(x))
				}
				s.Push(last...)
				return "-"
			})
		} else if op == "again" {
			// what the caller spread into Push is still the caller's: offered again it holds what it held
			ret = guard(func() string { s.Push(last...); return "-" })
		} else if strings.HasPrefix(op, "marshal ") {
			// through the address of the handle, as a caller does: Marshal may replace what the handle points to
			ret = guard(func() string {
				in, _ := parseV(strings.Fields(op)[1:])
				return "M" + errTok((&s).Marshal(Build(in).([]any)...))
			})
		} else {
			ret = applyOp(s, op)
		}
		outs = append(outs, ret+" "+obsStack(s))
	}
	return strings.Join(outs, " ; ")
}

func kinds(r *rand.Rand) int { return []int{1, 2, 3, 4, 6}[r.Intn(5)] }

func genStackLit(r *rand.Rand, c Cfg, n int, nilOK bool) V {
	st := V{T: 'K', Form: "n", Cfg: c}
	for i := 0; i < n; i++ {
		if nilOK {
			st.Xs = append(st.Xs, genElem(r))
		} else {
			st.Xs = append(st.Xs, genLeaf(r))
		}
	}
	return st
}

// capx (C03): growth and shrinkage around the capacity boundary
func genCapx(r *rand.Rand, id string, tier string) string {
	nextLeaf = 0
	k := 1 + r.Intn(6)
	c := Cfg{Kind: kinds(r), Cap: k, Fifo: r.Intn(3) == 0}
	if r.Intn(8) == 0 {
		c.Cap = 0
	}
	if r.Intn(25) == 0 {
		// a large capacity is a capacity like any other (the getters must say so; the operations stay small)
		c.Cap = []int{1023, 1024, 1025, 4096, 70000}[r.Intn(5)]
	}
	if r.Intn(4) == 0 {
		c.Ppf = 1 + r.Intn(4) // a push policy: the capacity must hold on that path too
	}
	n0 := r.Intn(k + 1)
	if c.Cap == 0 {
		n0 = r.Intn(4)
	}
	st := genStackLit(r, c, n0, true)
	maxOps := 10
	if tier == "thorough" {
		maxOps = 40
	}
	var ops []string
	nnOn := c.Opt&fNNest != 0
	if c.Cap >= 2 && r.Intn(4) == 0 {
		// shrink-then-refill prologue: the slice is rebuilt by Remove / Reset, grown back to full, and then an
		// Insert is attempted at an interior position of the full stack (it must fail and change nothing)
		st = genStackLit(r, c, k, true)
		if r.Intn(3) == 0 {
			ops = append(ops, "reset")
			var vs []string
			for j := 0; j < k; j++ {
				vs = append(vs, genLeaf(r).String())
			}
			ops = append(ops, "push "+strings.Join(vs, " "))
		} else {
			ops = append(ops, fmt.Sprintf("rem %d", r.Intn(k)), "push "+genLeaf(r).String()+" "+genLeaf(r).String())
		}
		ops = append(ops, fmt.Sprintf("ins %s %d", genLeaf(r), 1+r.Intn(k-1)))
	}
	for i, nops := 0, 1+r.Intn(maxOps); i < nops; i++ {
		switch r.Intn(12) {
		case 0, 1, 2, 3:
			m := r.Intn(k + 2)
			var vs []string
			for j := 0; j < m; j++ {
				vs = append(vs, genElem(r).String())
			}
			ops = append(ops, strings.TrimSpace("push "+strings.Join(vs, " ")))
		case 4, 5:
			ops = append(ops, fmt.Sprintf("ins %s %d", genLeaf(r), int64(r.Intn(k+3)-1)))
		case 6:
			ops = append(ops, "pop")
		case 7:
			ops = append(ops, fmt.Sprintf("rem %d", r.Intn(k+1)))
		case 8, 9:
			if c.Cap != 0 && c.Cap <= 12 && c.Ppf == 0 && !nnOn && r.Intn(5) == 0 {
				ops = append(ops, "xferself") // source and destination are one instance: still never beyond the capacity
				break
			}
			src := genStackLit(r, Cfg{Kind: kinds(r), Fifo: r.Intn(2) == 0}, r.Intn(k+2), true)
			ops = append(ops, "xferto "+src.String())
		case 10:
			if r.Intn(3) == 0 {
				ops = append(ops, "reset")
			} else {
				ops = append(ops, "pop")
			}
		case 11:
			if r.Intn(4) == 0 {
				// no-nesting is about Stacks, not about room: the capacity holds with the option on
				b := r.Intn(2)
				nnOn = b == 1
				ops = append(ops, fmt.Sprintf("nnest %d", b))
			} else if r.Intn(3) == 0 {
				// the capacity getters do not depend on the read-only flag
				ops = append(ops, fmt.Sprintf("ro %d", r.Intn(2)))
			} else if r.Intn(2) == 0 {
				// Marshal-into: one new element if there is room, and the capacity stays what it was
				ops = append(ops, "marshal "+[]string{"A [ s414e44 i1 i2 ]", "A [ s4c495354 s78 ]", "A [ s434f4e444954494f4e s6b Oc1 i1 ]", "A [ s6a756e6b i5 ]", "A [ ]"}[r.Intn(5)])
			} else {
				ops = append(ops, "rev")
			}
		}
	}
	return st.String() + " | " + strings.Join(ops, " ; ")
}

func genNestVal(r *rand.Rand) V {
	v := genNestVal0(r)
	if v.T == 'K' && r.Intn(4) == 0 {
		// a Stack is a Stack whatever its own ValidityPolicy says about it at the moment (2: rejects)
		v.Cfg.Vpf = 1 + r.Intn(2)
	}
	return v
}

func genNestVal0(r *rand.Rand) V {
	nextLeaf++
	switch r.Intn(9) {
	case 0:
		return V{T: 'K', Form: "n", Cfg: Cfg{Kind: kinds(r)}}
	case 1:
		return V{T: 'K', Form: "a", Cfg: Cfg{Kind: kinds(r)}, Xs: []V{{T: 'i', I: 7}}}
	case 2:
		return V{T: 'K', Form: "p", Cfg: Cfg{Kind: kinds(r)}}
	case 3:
		return V{T: 'K', Form: "as", Cfg: Cfg{Kind: kinds(r)}}
	case 4:
		if r.Intn(2) == 0 {
			// a Condition is not a Stack, whatever its expression is: it is stored under no-nesting
			return V{T: 'C', Form: []string{"n", "a", "p"}[r.Intn(3)], Kw: "k", Op: "c1", Xs: []V{{T: 'K', Form: "n", Cfg: Cfg{Kind: kinds(r)}, Xs: []V{{T: 'i', I: int64(nextLeaf)}}}}}
		}
		return V{T: 'C', Form: "n", Kw: "k", Op: "c1", Xs: []V{{T: 'i', I: int64(nextLeaf)}}}
	case 5:
		return V{T: 'N'}
	case 6:
		return V{T: 'Z', Form: []string{"n", "a", "p"}[r.Intn(3)]}
	default:
		return V{T: 'i', I: int64(nextLeaf)}
	}
}

// nest (C13): push batches mixing stacks, aliases, pointers, conditions and primitives, with the option switched on and off
func genNest(r *rand.Rand, id string, tier string) string {
	nextLeaf = 0
	c := Cfg{Kind: kinds(r)}
	if r.Intn(2) == 0 {
		c.Opt |= fNNest
	}
	if r.Intn(4) == 0 {
		c.Cap = 2 + r.Intn(5)
	}
	st := V{T: 'K', Form: "n", Cfg: c}
	for i, n := 0, r.Intn(3); i < n; i++ {
		st.Xs = append(st.Xs, genNestVal(r))
	}
	var ops []string
	for i, nops := 0, 1+r.Intn(8); i < nops; i++ {
		switch r.Intn(7) {
		case 0:
			ops = append(ops, fmt.Sprintf("nnest %d", r.Intn(2)))
			if r.Intn(3) == 0 {
				ops = append(ops, "again")
			}
		case 1:
			if r.Intn(3) == 0 {
				ops = append(ops, "again")
			} else if r.Intn(2) == 0 {
				ops = append(ops, fmt.Sprintf("rem %d", r.Intn(4))) // taking one element out leaves the others (nested Stacks included) where they are
			} else {
				ops = append(ops, "pop")
			}
		case 6:
			switch r.Intn(4) {
			case 0:
				// a Stack can also arrive by Replace, Insert or Marshal (none of them is Push: the option does not apply), and
				// IsNesting is about what is there, however it came
				ops = append(ops, []string{fmt.Sprintf("rep %s %d", genNestVal(r), r.Intn(3)), fmt.Sprintf("ins %s %d", genNestVal(r), r.Intn(3)),
					"marshal A [ s414e44 A [ s4f52 i1 ] i2 ]", "marshal A [ s434f4e444954494f4e s6b Oc1 A [ s4c495354 i1 ] ]"}[r.Intn(4)])
			default:
				ops = append(ops, fmt.Sprintf("ppol %d", []int{0, 1, 2, 3, 4, 6, 6, 7}[r.Intn(8)])) // the option holds on the push-policy path as well (6: a policy that rejects Stacks itself)
			}
		default:
			var vs []string
			for j, m := 0, r.Intn(5); j < m; j++ {
				vs = append(vs, genNestVal(r).String())
			}
			ops = append(ops, strings.TrimSpace("push "+strings.Join(vs, " ")))
		}
	}
	return st.String() + " | " + strings.Join(ops, " ; ")
}

// pol (C14, push part): batches against push policies, with and without capacity
func genPol(r *rand.Rand, id string, tier string) string {
	nextLeaf = 0
	c := Cfg{Kind: kinds(r), Ppf: 1 + r.Intn(5)}
	if r.Intn(2) == 0 {
		c.Cap = 1 + r.Intn(6)
	}
	if r.Intn(5) == 0 {
		c.Opt |= fNNest
	}
	if r.Intn(3) == 0 {
		c.Mtx = true // the policy decides the same way on a mutex-enabled stack: once per value, while room remains
	}
	st := V{T: 'K', Form: "n", Cfg: c}
	var ops []string
	for i, nops := 0, 1+r.Intn(6); i < nops; i++ {
		switch r.Intn(8) {
		case 0:
			ops = append(ops, fmt.Sprintf("ppol %d", r.Intn(8)))
		case 1:
			ops = append(ops, "clrerr")
		case 2:
			ops = append(ops, "pop")
		default:
			var vs []string
			for j, m := 0, r.Intn(6); j < m; j++ {
				var v V
				switch r.Intn(6) {
				case 5:
					// zero-valued instances (and a pointer to one) are values: offered to the policy, stored if approved
					v = []V{{T: 'Z', Form: "n"}, {T: 'Y', Form: "n"}, {T: 'Z', Form: "a"}, {T: 'o', Ty: 22, ID: 1}}[r.Intn(4)]
				case 0:
					v = V{T: 'N'}
				case 1:
					nextLeaf++
					v = V{T: 's', S: fmt.Sprintf("s%d", nextLeaf)}
				case 2:
					v = V{T: 'K', Form: "n", Cfg: Cfg{Kind: 4}}
				default:
					v = V{T: 'i', I: int64(r.Intn(10))}
				}
				vs = append(vs, v.String())
			}
			ops = append(ops, strings.TrimSpace("push "+strings.Join(vs, " ")))
		}
	}
	return st.String() + " | " + strings.Join(ops, " ; ")
}

// xfer (C15): the whole (|src|, |dst|, capacity, destination form) grid, sampled
func genXfer(r *rand.Rand, id string, tier string) string {
	nextLeaf = 0
	src := genStackLit(r, Cfg{Kind: kinds(r), Fifo: r.Intn(2) == 0, Mtx: r.Intn(3) == 0}, r.Intn(6), true)
	if r.Intn(4) == 0 {
		// "every element of src": typed nil pointers, pointers to zero-valued instances and other values that are not nil
		// although they have nothing to say for themselves arrive as what they are
		for i := range src.Xs {
			if r.Intn(2) == 0 {
				src.Xs[i] = []V{{T: 'o', Ty: 5, ID: 1}, {T: 'o', Ty: 20, ID: 1}, {T: 'o', Ty: 20, ID: 2}, {T: 'o', Ty: 20, ID: 3}, {T: 'o', Ty: 20, ID: 4},
					{T: 'o', Ty: 27, ID: 1}, {T: 'o', Ty: 22, ID: 1}, {T: 'o', Ty: 3, ID: 1}, {T: 'Z', Form: "n"}, {T: 'Z', Form: "a"}}[r.Intn(10)] // (5:2 / 5:3 are the same values as 20:1 / 20:2: never both in one case)
			}
		}
	}
	dc := Cfg{Kind: kinds(r)}
	if r.Intn(3) != 0 {
		dc.Cap = 1 + r.Intn(6)
	}
	nd := r.Intn(6)
	if dc.Cap != 0 && nd > dc.Cap {
		nd = dc.Cap
	}
	var dest V
	switch r.Intn(9) {
	case 0:
		dest = V{T: 'Z', Form: []string{"n", "a", "p"}[r.Intn(3)]}
	case 1:
		dest = []V{{T: 'i', I: 5}, {T: 'N'}, {T: 's', S: "x"}, {T: 'C', Form: "n", Kw: "k", Op: "c1", Xs: []V{{T: 'i', I: 1}}}, {T: 'o', Ty: 3, ID: 1}, {T: 'o', Ty: 22, ID: 1}, {T: 'o', Ty: 23, ID: 1}, {T: 'o', Ty: 20, ID: 3},
			// a Condition is not a Stack, whatever it holds
			{T: 'C', Form: "n", Kw: "k", Op: "c1", Xs: []V{{T: 'K', Form: "n", Cfg: Cfg{Kind: 4}, Xs: []V{{T: 'i', I: 1}}}}},
			{T: 'C', Form: "a", Kw: "k", Op: "c1", Xs: []V{{T: 'K', Form: "n", Cfg: Cfg{Kind: 1}}}},
			{T: 'C', Form: "p", Kw: "k", Op: "c1", Xs: []V{{T: 'K', Form: "a", Cfg: Cfg{Kind: 2}, Xs: []V{{T: 'i', I: 2}}}}}}[r.Intn(11)]
	case 2:
		dc.Opt |= fRO
		if r.Intn(3) == 0 {
			dc.Err = 7 // read-only is read-only, whatever else is recorded
		}
		dest = genStackLit(r, dc, nd, true)
	default:
		if r.Intn(4) == 0 {
			dc.Ppf = 1 + r.Intn(5)
		}
		if r.Intn(6) == 0 {
			dc.Opt |= fNNest
		}
		if r.Intn(3) == 0 {
			dc.Mtx = true // every push into the destination must release the destination's lock
		}
		dest = genStackLit(r, dc, nd, true)
		dest.Form = []string{"n", "n", "a", "as", "p"}[r.Intn(5)]
	}
	// afterwards the source must still be usable (a lock left behind would block this Push for ever)
	return src.String() + " | xfer " + dest.String() + " ; push i77"
}

// resets (C17, Reset clause): any configuration (kind, capacity, options, texts, policies), a history that rebuilds
// the slice (Remove, Insert at the front, Pop, Reverse ...), then Reset: every element is gone, nil ones included, and
// the configuration record is what it was; the instance stays usable (pushes under the same capacity and policy).
func genResets(r *rand.Rand, id string, tier string) string {
	nextLeaf = 0
	k := 1 + r.Intn(6)
	c := Cfg{Kind: kinds(r), Fifo: r.Intn(3) == 0}
	if r.Intn(3) != 0 {
		c.Cap = k
	}
	for _, f := range []int{fParen, fFold, fNoPad, fLOnce, fNeg, fFwd, fNNest} {
		if r.Intn(4) == 0 {
			c.Opt |= f
		}
	}
	if r.Intn(4) == 0 && c.Kind != 4 {
		c.Sym = []string{"+", "&&", "plus"}[r.Intn(3)] // a LIST takes no symbol
	}
	if r.Intn(4) == 0 {
		c.ID = []string{"id1", "x y"}[r.Intn(2)]
	}
	if r.Intn(4) == 0 {
		c.Cat = "cat"
	}
	if r.Intn(3) == 0 {
		c.Ppf = 1 + r.Intn(4)
	}
	if r.Intn(4) == 0 {
		c.Vpf = 1 + r.Intn(2)
	}
	if r.Intn(4) == 0 && c.Kind != 6 {
		c.Rpf = 1 + r.Intn(2) // a BASIC stack takes no presentation policy
	}
	if r.Intn(6) == 0 {
		c.Eqf = 1 + r.Intn(2)
	}
	if r.Intn(3) == 0 {
		c.Lss = 1
	}
	n0 := r.Intn(k + 1)
	st := genStackLit(r, c, n0, true)
	var ops []string
	body := func(nops int) {
		for i := 0; i < nops; i++ {
			switch r.Intn(10) {
			case 0, 1, 2:
				var vs []string
				for j, m := 0, 1+r.Intn(k); j < m; j++ {
					vs = append(vs, genElem(r).String())
				}
				ops = append(ops, "push "+strings.Join(vs, " "))
			case 3, 4:
				ops = append(ops, fmt.Sprintf("rem %d", r.Intn(k+1)))
			case 5:
				ops = append(ops, fmt.Sprintf("ins %s %d", genLeaf(r), int64(r.Intn(k+2)-1)))
			case 6:
				ops = append(ops, "pop")
			case 7:
				ops = append(ops, "rev")
			case 8:
				ops = append(ops, fmt.Sprintf("rep %s %d", genLeaf(r), r.Intn(k+1)))
			case 9:
				ops = append(ops, fmt.Sprintf("swap %d %d", r.Intn(k+1), r.Intn(k+1)))
			}
		}
	}
	ops = append(ops, "cfg")
	body(1 + r.Intn(6))
	ops = append(ops, "reset", "cfg")
	body(1 + r.Intn(4))
	if r.Intn(2) == 0 {
		ops = append(ops, "reset", "cfg")
		body(r.Intn(3))
	}
	return st.String() + " | " + strings.Join(ops, " ; ")
}

// xferro (C09): the read-only instance is the ARGUMENT of another instance's method: Transfer into it must report
// false and leave it exactly as it was (content, order, capacity), whatever its form
func genXferRO(r *rand.Rand, id string, tier string) string {
	nextLeaf = 0
	src := genStackLit(r, Cfg{Kind: kinds(r), Fifo: r.Intn(2) == 0}, 1+r.Intn(4), true)
	if r.Intn(2) == 0 {
		// the read-only instance is the SOURCE: whatever becomes of the call (a destination that is too small, one that
		// fits, a read-only one), the source stays exactly as it was - its recorded error included
		src.Cfg.Opt |= fRO
		if r.Intn(3) == 0 {
			src.Cfg.Err = 7
		}
		dc := Cfg{Kind: kinds(r), Cap: 1 + r.Intn(len(src.Xs)+1)}
		dest := genStackLit(r, dc, r.Intn(dc.Cap+1), true)
		dest.Form = []string{"n", "n", "a", "p"}[r.Intn(4)]
		return src.String() + " | xfer " + dest.String() + " ; push i77"
	}
	dc := Cfg{Kind: kinds(r), Opt: fRO}
	if r.Intn(2) == 0 {
		dc.Cap = 2 + r.Intn(6)
	}
	nd := r.Intn(3)
	dest := genStackLit(r, dc, nd, true)
	dest.Form = []string{"n", "n", "a", "p"}[r.Intn(4)]
	return src.String() + " | xfer " + dest.String() + " ; push i77"
}
