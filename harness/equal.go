package main

// Streams `eqpair` and `equnit` (C05): IsEqual on (tree, independently rebuilt copy) and on
// (tree, copy with exactly one point mutation), both directions; valuesEqual on leaf pairs.
//
// EV literals (the reflect universe, lean/Stackage/Model/EV.lean):
//
//	p<ty>:<hex>:<nan>       known primitive: type code, canonical text, 1 if the value is not equal to itself
//	t<ty>:<hex>             value of a declared scalar type (MyInt, MyStr, MyFlt, MyBool)
//	u<0|1>:<n>              uintptr(n) / unsafe.Pointer(&anchor[n])
//	z<ty>                   typed nil pointer
//	P <ty> E                non-nil pointer to E (ty unused, 0)
//	Q <a|s> <ety> <cap> [ E* ]     array / slice with element type code ety
//	M <ty> [ (E E)* ]       map: key value key value ...
//	T <ty> [ (<namehex>:<e|p>:<a|n> E)* ]   struct: per field name, exported/private, anonymous/named, value
//	f<ty>:<id>  c<ty>:<id>  func / chan (chan identity = (ty,id))
//	I                       nil interface inside a container;  J E  non-nil interface holding E
//
// Every code stands for one Go type out of the fixed tables below.

import (
	"fmt"
	"math"
	"math/rand"
	"reflect"
	"strconv"
	"strings"
	"unsafe"

	stackage "github.com/JesseCoretta/go-stackage"
)

type MyInt int
type MyStr string
type MyFlt float64
type MyBool bool

type Emb struct{ X int }
type Emb2 struct{ X int }
type emb struct{ X int }

type S1 struct {
	A int
	B string
}
type SP struct {
	A int
	b int
}
type SE struct {
	Emb
	C int
}
type Se struct {
	emb
	C int
}
type S1b struct {
	A int
	B string
}
type SA struct{ A any }
type SN struct {
	A int
	N S1
}
type SPtr struct {
	P *int
	Q **int
}
type SL struct {
	L []int
	M map[string]int
}
type S0 struct{}
type S1c struct {
	A int
	C string
}
type SE2 struct {
	Emb2
	C int
}
type SF struct {
	F func()
	C chan int
}
type SPP struct {
	a string
	B []string
	c *int
}
type SEn struct {
	Emb Emb
	C   int
}
type SQ struct{ q int } // reflect cannot tell it from a Stack handle (one unexported field)
type SE1 struct{ Emb }  // one exported embedded field

func tof(x any) reflect.Type { return reflect.TypeOf(x) }

var anyType = reflect.TypeOf((*any)(nil)).Elem()

var primTypes = []reflect.Type{nil, tof(int(0)), tof(int8(0)), tof(int16(0)), tof(int32(0)), tof(int64(0)),
	tof(uint(0)), tof(uint8(0)), tof(uint16(0)), tof(uint32(0)), tof(uint64(0)), tof(float32(0)), tof(float64(0)),
	tof(complex64(0)), tof(complex128(0)), tof(false), tof("")}
var namedTypes = []reflect.Type{nil, tof(MyInt(0)), tof(MyStr("")), tof(MyFlt(0)), tof(MyBool(false))}
var nilPtrTypes = []reflect.Type{nil, tof((*int)(nil)), tof((**int)(nil)), tof((*string)(nil)), tof((*S1)(nil)),
	tof((*[]int)(nil)), tof((*MyInt)(nil)), tof((*any)(nil)), tof((*SP)(nil)), tof((*func())(nil)), tof((*chan int)(nil))}
var elemTypes = []reflect.Type{nil, tof(int(0)), tof(""), tof((*int)(nil)), anyType, tof([]int(nil)), tof(float64(0)), tof(S1{}),
	tof(map[string]int(nil)), tof(func() {}), tof((chan int)(nil)), tof(uintptr(0)), tof((**int)(nil)), tof(SP{}), tof(false),
	tof(int8(0)), tof(MyInt(0)), tof(SE{}), tof(uint8(0)), tof([2]int{}), tof((*S1)(nil)), tof([]string(nil)), tof(Se{}), tof((*func())(nil))}
var mapTypes = []reflect.Type{nil, tof(map[string]int(nil)), tof(map[string]any(nil)), tof(map[int]string(nil)), tof(map[string]int64(nil)),
	tof(map[string][]int(nil)), tof(map[string]*int(nil)), tof(map[string]S1(nil)), tof(map[float64]int(nil)),
	tof(map[MyStr]int(nil)), tof(map[MyInt]string(nil))} // 9, 10: keys of a declared type (same kind as 1 / 3, another type)
var structTypes = []reflect.Type{nil, tof(S1{}), tof(SP{}), tof(SE{}), tof(Se{}), tof(S1b{}), tof(SA{}), tof(SN{}), tof(SPtr{}), tof(SL{}),
	tof(S0{}), tof(S1c{}), tof(SE2{}), tof(SF{}), tof(SPP{}), tof(SEn{}), tof(Emb{}), tof(Emb2{}), tof(emb{}), tof(SQ{}), tof(SE1{})}
var funcTypes = []reflect.Type{nil, tof(func() {}), tof(func() int { return 0 }), tof(func(int) string { return "" })}
var chanTypes = []reflect.Type{nil, tof((chan int)(nil)), tof((chan string)(nil))}

func codeOf(tab []reflect.Type, t reflect.Type) int {
	for i := 1; i < len(tab); i++ {
		if tab[i] == t {
			return i
		}
	}
	return 0
}

var anchor [16]int

type FldMeta struct {
	Name           string
	Exported, Anon bool
}

type EVv struct {
	C   byte // p t u z P Q M T f c I J
	Ty  int
	S   string
	Nan bool
	Uns bool
	N   int // uptr value / func, chan id / seq capacity
	Arr bool
	Xs  []*EVv // P: target; Q: elements; M: keys; T: field values; J: inner
	Vs  []*EVv // M: values
	Fs  []FldMeta
	rt  reflect.Type // generator only: the Go type this node was generated for
}

func (e *EVv) String() string {
	switch e.C {
	case 'p':
		return fmt.Sprintf("p%d:%s:%s", e.Ty, hx(e.S), b01(e.Nan))
	case 't':
		return fmt.Sprintf("t%d:%s", e.Ty, hx(e.S))
	case 'u':
		return fmt.Sprintf("u%s:%d", b01(e.Uns), e.N)
	case 'z':
		return fmt.Sprintf("z%d", e.Ty)
	case 'P':
		return fmt.Sprintf("P %d %s", e.Ty, e.Xs[0])
	case 'Q':
		a := "s"
		if e.Arr {
			a = "a"
		}
		var xs []string
		for _, x := range e.Xs {
			xs = append(xs, x.String())
		}
		return strings.TrimSpace(fmt.Sprintf("Q %s %d %d [ %s", a, e.Ty, e.N, strings.Join(xs, " "))) + " ]"
	case 'M':
		var xs []string
		for i := range e.Xs {
			xs = append(xs, e.Xs[i].String(), e.Vs[i].String())
		}
		return strings.TrimSpace(fmt.Sprintf("M %d [ %s", e.Ty, strings.Join(xs, " "))) + " ]"
	case 'T':
		var xs []string
		for i := range e.Xs {
			f := e.Fs[i]
			ex, an := "p", "n"
			if f.Exported {
				ex = "e"
			}
			if f.Anon {
				an = "a"
			}
			xs = append(xs, fmt.Sprintf("%s:%s:%s", hx(f.Name), ex, an), e.Xs[i].String())
		}
		return strings.TrimSpace(fmt.Sprintf("T %d [ %s", e.Ty, strings.Join(xs, " "))) + " ]"
	case 'f':
		return fmt.Sprintf("f%d:%d", e.Ty, e.N)
	case 'c':
		return fmt.Sprintf("c%d:%d", e.Ty, e.N)
	case 'I':
		return "I"
	case 'J':
		return "J " + e.Xs[0].String()
	}
	panic("bad EV")
}

func atoiS(s string) int {
	n, err := strconv.Atoi(s)
	if err != nil {
		panic(err)
	}
	return n
}

func parseEV(toks []string) (*EVv, []string) {
	t := toks[0]
	switch t[0] {
	case 'p':
		p := strings.SplitN(t[1:], ":", 3)
		return &EVv{C: 'p', Ty: atoiS(p[0]), S: unhx(p[1]), Nan: p[2] == "1"}, toks[1:]
	case 't':
		p := strings.SplitN(t[1:], ":", 2)
		return &EVv{C: 't', Ty: atoiS(p[0]), S: unhx(p[1])}, toks[1:]
	case 'u':
		p := strings.SplitN(t[1:], ":", 2)
		return &EVv{C: 'u', Uns: p[0] == "1", N: atoiS(p[1])}, toks[1:]
	case 'z':
		return &EVv{C: 'z', Ty: atoiS(t[1:])}, toks[1:]
	case 'P':
		x, rest := parseEV(toks[2:])
		return &EVv{C: 'P', Ty: atoiS(toks[1]), Xs: []*EVv{x}}, rest
	case 'Q':
		e := &EVv{C: 'Q', Arr: toks[1] == "a", Ty: atoiS(toks[2]), N: atoiS(toks[3])}
		rest := toks[5:]
		for rest[0] != "]" {
			var x *EVv
			x, rest = parseEV(rest)
			e.Xs = append(e.Xs, x)
		}
		return e, rest[1:]
	case 'M':
		e := &EVv{C: 'M', Ty: atoiS(toks[1])}
		rest := toks[3:]
		for rest[0] != "]" {
			var k, v *EVv
			k, rest = parseEV(rest)
			v, rest = parseEV(rest)
			e.Xs = append(e.Xs, k)
			e.Vs = append(e.Vs, v)
		}
		return e, rest[1:]
	case 'T':
		e := &EVv{C: 'T', Ty: atoiS(toks[1])}
		rest := toks[3:]
		for rest[0] != "]" {
			p := strings.SplitN(rest[0], ":", 3)
			e.Fs = append(e.Fs, FldMeta{Name: unhx(p[0]), Exported: p[1] == "e", Anon: p[2] == "a"})
			var v *EVv
			v, rest = parseEV(rest[1:])
			e.Xs = append(e.Xs, v)
		}
		return e, rest[1:]
	case 'f', 'c':
		p := strings.SplitN(t[1:], ":", 2)
		return &EVv{C: t[0], Ty: atoiS(p[0]), N: atoiS(p[1])}, toks[1:]
	case 'I':
		return &EVv{C: 'I'}, toks[1:]
	case 'J':
		x, rest := parseEV(toks[1:])
		return &EVv{C: 'J', Xs: []*EVv{x}}, rest
	}
	panic("bad EV token " + t)
}

// ---------------------------------------------------------------------------
// Go counterparts

func primText(v reflect.Value) (string, bool) {
	switch v.Kind() {
	case reflect.Int, reflect.Int8, reflect.Int16, reflect.Int32, reflect.Int64:
		return strconv.FormatInt(v.Int(), 10), false
	case reflect.Uint, reflect.Uint8, reflect.Uint16, reflect.Uint32, reflect.Uint64:
		return strconv.FormatUint(v.Uint(), 10), false
	case reflect.Float32:
		return strconv.FormatFloat(v.Float(), 'g', -1, 32), v.Float() != v.Float()
	case reflect.Float64:
		return strconv.FormatFloat(v.Float(), 'g', -1, 64), v.Float() != v.Float()
	case reflect.Complex64:
		return strconv.FormatComplex(v.Complex(), 'g', -1, 64), v.Complex() != v.Complex()
	case reflect.Complex128:
		return strconv.FormatComplex(v.Complex(), 'g', -1, 128), v.Complex() != v.Complex()
	case reflect.Bool:
		return strconv.FormatBool(v.Bool()), false
	case reflect.String:
		return v.String(), false
	}
	panic("not a primitive kind")
}

func scalarOf(t reflect.Type, text string, nan bool) reflect.Value {
	v := reflect.New(t).Elem()
	switch t.Kind() {
	case reflect.Int, reflect.Int8, reflect.Int16, reflect.Int32, reflect.Int64:
		n, err := strconv.ParseInt(text, 10, 64)
		if err != nil {
			panic(err)
		}
		v.SetInt(n)
	case reflect.Uint, reflect.Uint8, reflect.Uint16, reflect.Uint32, reflect.Uint64:
		n, err := strconv.ParseUint(text, 10, 64)
		if err != nil {
			panic(err)
		}
		v.SetUint(n)
	case reflect.Float32, reflect.Float64:
		if nan {
			v.SetFloat(math.NaN())
		} else {
			f, err := strconv.ParseFloat(text, 64)
			if err != nil {
				panic(err)
			}
			v.SetFloat(f)
		}
	case reflect.Complex64, reflect.Complex128:
		if nan {
			v.SetComplex(complex(math.NaN(), 0))
		} else {
			c, err := strconv.ParseComplex(text, 128)
			if err != nil {
				panic(err)
			}
			v.SetComplex(c)
		}
	case reflect.Bool:
		v.SetBool(text == "true")
	case reflect.String:
		v.SetString(text)
	default:
		panic("bad scalar type")
	}
	return v
}

var chanStore = map[[2]int]reflect.Value{}

func chanOf(ty, id int) reflect.Value {
	if ty == 1 {
		return reflect.ValueOf(opqOf(2, id)) // shares identity with the `o2:<id>` leaves
	}
	storeMu.Lock()
	defer storeMu.Unlock()
	k := [2]int{ty, id}
	if c, ok := chanStore[k]; ok {
		return c
	}
	c := reflect.MakeChan(chanTypes[ty], 0)
	chanStore[k] = c
	return c
}

func funcOf(ty, id int) reflect.Value {
	switch ty {
	case 1:
		return reflect.ValueOf(func() { _ = id })
	case 2:
		return reflect.ValueOf(func() int { return id })
	case 3:
		return reflect.ValueOf(func(int) string { return strconv.Itoa(id) })
	}
	panic("bad func type")
}

// setField stores x into field i of the addressable struct value sv, private or not
func setField(sv reflect.Value, i int, x reflect.Value) {
	f := sv.Field(i)
	if !f.CanSet() {
		f = reflect.NewAt(f.Type(), unsafe.Pointer(f.UnsafeAddr())).Elem()
	}
	f.Set(x)
}

// buildEV constructs the Go value; the result's static type is the intended one
// (an interface-typed Value for I / J).
func buildEV(e *EVv) reflect.Value {
	switch e.C {
	case 'p':
		return scalarOf(primTypes[e.Ty], e.S, e.Nan)
	case 't':
		return scalarOf(namedTypes[e.Ty], e.S, false)
	case 'u':
		if e.Uns {
			return reflect.ValueOf(unsafe.Pointer(&anchor[e.N%len(anchor)]))
		}
		return reflect.ValueOf(uintptr(e.N))
	case 'z':
		return reflect.Zero(nilPtrTypes[e.Ty])
	case 'P':
		v := buildEV(e.Xs[0])
		p := reflect.New(v.Type())
		p.Elem().Set(v)
		return p
	case 'Q':
		et := elemTypes[e.Ty]
		var s reflect.Value
		if e.Arr {
			s = reflect.New(reflect.ArrayOf(len(e.Xs), et)).Elem()
		} else {
			s = reflect.MakeSlice(reflect.SliceOf(et), len(e.Xs), e.N)
		}
		for i, x := range e.Xs {
			s.Index(i).Set(buildEV(x))
		}
		return s
	case 'M':
		m := reflect.MakeMap(mapTypes[e.Ty])
		for i := range e.Xs {
			m.SetMapIndex(buildEV(e.Xs[i]), buildEV(e.Vs[i]))
		}
		return m
	case 'T':
		st := structTypes[e.Ty]
		if st.NumField() != len(e.Xs) {
			panic("struct literal does not match its type")
		}
		sv := reflect.New(st).Elem()
		for i, x := range e.Xs {
			f := st.Field(i)
			if f.Name != e.Fs[i].Name || f.IsExported() != e.Fs[i].Exported || f.Anonymous != e.Fs[i].Anon {
				panic("struct literal metadata does not match its type")
			}
			setField(sv, i, buildEV(x))
		}
		return sv
	case 'f':
		return funcOf(e.Ty, e.N)
	case 'c':
		return chanOf(e.Ty, e.N)
	case 'I':
		return reflect.Zero(anyType)
	case 'J':
		v := reflect.New(anyType).Elem()
		v.Set(buildEV(e.Xs[0]))
		return v
	}
	panic("bad EV")
}

// eqPolicy: 1 = always equal; 3 = equal exactly when the peer arrives as a native Stack / Condition (what a nested node's
// policy is handed, whatever form the peer had in its parent); otherwise always the error E<200+id>
func eqPolicy(id int) stackage.EqualityPolicy {
	return func(_, peer any) error {
		if id == 1 {
			return nil
		}
		if id == 3 {
			switch peer.(type) {
			case stackage.Stack, stackage.Condition:
				return nil
			}
		}
		return errOf(200 + id)
	}
}

// ---------------------------------------------------------------------------
// type-directed generator

var intPool = []int64{0, 1, -1, 2, 3, 7, 100, -128, 127, 255, 32767, math.MaxInt64, math.MinInt64}
var strPool = []string{"", "a", "b", "ab", "ba", "é", "a b", "x", "Z", "日本"}
var fltPool = []float64{0, 1, 1.5, -2.25, 1e100, 3, math.Inf(1), 0.1}

func genScalar(r *rand.Rand, t reflect.Type) (string, bool) {
	v := reflect.New(t).Elem()
	switch t.Kind() {
	case reflect.Int, reflect.Int8, reflect.Int16, reflect.Int32, reflect.Int64:
		v.SetInt(intPool[r.Intn(len(intPool))]) // truncates to the width
	case reflect.Uint, reflect.Uint8, reflect.Uint16, reflect.Uint32, reflect.Uint64:
		v.SetUint(uint64(intPool[r.Intn(len(intPool))]))
	case reflect.Float32, reflect.Float64:
		if r.Intn(12) == 0 {
			v.SetFloat(math.NaN())
		} else {
			v.SetFloat(fltPool[r.Intn(len(fltPool))])
		}
	case reflect.Complex64, reflect.Complex128:
		if r.Intn(12) == 0 {
			v.SetComplex(complex(math.NaN(), 0))
		} else {
			v.SetComplex(complex(fltPool[r.Intn(4)], fltPool[r.Intn(4)]))
		}
	case reflect.Bool:
		v.SetBool(r.Intn(2) == 0)
	case reflect.String:
		v.SetString(strPool[r.Intn(len(strPool))])
	}
	return primText(v)
}

var ifacePool = []reflect.Type{tof(int(0)), tof(""), tof(float64(0)), tof(false), tof(int8(0)), tof([]int(nil)), tof(S1{}), tof((*int)(nil)), tof(MyInt(0)), tof(uintptr(0))}

func genOfType(r *rand.Rand, t reflect.Type, d int) *EVv {
	e := genOfType1(r, t, d)
	e.rt = t
	return e
}

func genOfType1(r *rand.Rand, t reflect.Type, d int) *EVv {
	switch t.Kind() {
	case reflect.Uintptr:
		return &EVv{C: 'u', N: r.Intn(4)}
	case reflect.UnsafePointer:
		return &EVv{C: 'u', Uns: true, N: r.Intn(4)}
	case reflect.Ptr:
		if c := codeOf(nilPtrTypes, t); c != 0 && r.Intn(8) == 0 {
			return &EVv{C: 'z', Ty: c}
		}
		return &EVv{C: 'P', Xs: []*EVv{genOfType(r, t.Elem(), d+1)}}
	case reflect.Slice, reflect.Array:
		ety := codeOf(elemTypes, t.Elem())
		if ety == 0 {
			panic("no element type code for " + t.String())
		}
		e := &EVv{C: 'Q', Ty: ety, Arr: t.Kind() == reflect.Array}
		n := r.Intn(7)
		if d > 1 {
			n = r.Intn(3)
		}
		if e.Arr {
			n = t.Len()
		}
		for i := 0; i < n; i++ {
			e.Xs = append(e.Xs, genOfType(r, t.Elem(), d+1))
		}
		e.N = n
		if !e.Arr && r.Intn(4) == 0 {
			e.N = n + 1 + r.Intn(3)
		}
		return e
	case reflect.Map:
		e := &EVv{C: 'M', Ty: codeOf(mapTypes, t)}
		n := r.Intn(5)
		seen := map[string]bool{}
		for i := 0; i < n; i++ {
			k := genOfType(r, t.Key(), d+1)
			if seen[k.String()] || k.Nan {
				continue
			}
			seen[k.String()] = true
			e.Xs = append(e.Xs, k)
			e.Vs = append(e.Vs, genOfType(r, t.Elem(), d+1))
		}
		return e
	case reflect.Struct:
		e := &EVv{C: 'T', Ty: codeOf(structTypes, t)}
		if e.Ty == 0 {
			panic("no struct code for " + t.String())
		}
		for i := 0; i < t.NumField(); i++ {
			f := t.Field(i)
			e.Fs = append(e.Fs, FldMeta{Name: f.Name, Exported: f.IsExported(), Anon: f.Anonymous})
			e.Xs = append(e.Xs, genOfType(r, f.Type, d+1))
		}
		return e
	case reflect.Func:
		return &EVv{C: 'f', Ty: codeOf(funcTypes, t), N: r.Intn(3)}
	case reflect.Chan:
		return &EVv{C: 'c', Ty: codeOf(chanTypes, t), N: r.Intn(3)}
	case reflect.Interface:
		if r.Intn(5) == 0 {
			return &EVv{C: 'I'}
		}
		k := len(ifacePool)
		if r.Intn(3) != 0 {
			k = 5 // mostly primitives
		}
		return &EVv{C: 'J', Xs: []*EVv{genOfType(r, ifacePool[r.Intn(k)], d+1)}}
	}
	if c := codeOf(namedTypes, t); c != 0 {
		s, _ := genScalar(r, t)
		return &EVv{C: 't', Ty: c, S: s}
	}
	c := codeOf(primTypes, t)
	if c == 0 {
		panic("no code for type " + t.String())
	}
	s, nan := genScalar(r, t)
	return &EVv{C: 'p', Ty: c, S: s, Nan: nan}
}

// the leaf types of the property (weight 3) and the awkward ones (weight 1)
var leafTypesMain = []reflect.Type{tof(int(0)), tof(""), tof(float64(0)), tof(false), tof(int8(0)), tof(uint(0)), tof(uint8(0)), tof(int64(0)),
	tof(complex128(0)), tof(float32(0)), tof([]int(nil)), tof([3]int{}), tof([]string(nil)), tof([]*int(nil)), tof(map[string]int(nil)),
	tof(S1{}), tof(SP{}), tof(SE{}), tof(SN{}), tof(SPtr{}), tof(SL{}), tof((**int)(nil)), tof((*int)(nil)), tof((*S1)(nil)), tof((*[]int)(nil)),
	tof([][]int(nil)), tof([]S1(nil)), tof([]SP(nil)), tof([]map[string]int(nil)), tof(map[int]string(nil)), tof(SPP{}), tof([]float64(nil)),
	tof(map[string][]int(nil)), tof(map[string]*int(nil)), tof(map[string]S1(nil)), tof([2]int{}), tof([]bool(nil)), tof([]int8(nil)), tof([]SE(nil)), tof([]*S1(nil)),
	tof([4]uint8{}), tof([]uint8(nil)), tof([4]uint8{})} // octets: a byte array held by value (an IPv4 address, a digest) is not addressable
var leafTypesAwk = []reflect.Type{tof(SQ{}), tof(SE1{}), tof(Se{}), tof(SA{}), tof(S0{}), tof(S1b{}), tof(S1c{}), tof(SE2{}), tof(SF{}), tof(SEn{}), tof(func() {}), tof(func() int { return 0 }),
	tof((chan int)(nil)), tof(MyInt(0)), tof(MyStr("")), tof(uintptr(0)), tof(unsafe.Pointer(nil)), tof([]any(nil)), tof(map[string]any(nil)), tof((*any)(nil)),
	tof((*func())(nil)), tof((*chan int)(nil)), tof([]chan int(nil)), tof(([]func())(nil)), tof([]uintptr(nil)), tof([]MyInt(nil)), tof([]Se(nil)),
	tof(map[float64]int(nil)), tof(map[string]int64(nil)), tof([]**int(nil)), tof(([]*func())(nil)), tof([]uint8(nil)), tof((*SP)(nil))}

func genEVLeaf(r *rand.Rand) *EVv {
	if r.Intn(4) == 0 {
		return genOfType(r, leafTypesAwk[r.Intn(len(leafTypesAwk))], 0)
	}
	return genOfType(r, leafTypesMain[r.Intn(len(leafTypesMain))], 0)
}

func genEqLeaf(r *rand.Rand) V {
	switch r.Intn(30) {
	case 0:
		return V{T: 'i', I: int64(r.Intn(4))}
	case 1:
		return V{T: 's', S: strPool[1+r.Intn(4)]}
	case 2:
		return V{T: 'b', B: r.Intn(2) == 0}
	case 3:
		return []V{{T: 'n', Ty: 1, S: "1.5"}, {T: 'n', Ty: 2, S: "7"}, {T: 'n', Ty: 3, S: "-3"}, {T: 'n', Ty: 1, S: "NaN"}}[r.Intn(4)]
	case 4:
		return V{T: 'g', ID: r.Intn(3), S: strPool[1+r.Intn(3)], B: r.Intn(4) == 0}
	case 5:
		return V{T: 'o', Ty: 1 + r.Intn(7), ID: r.Intn(3)}
	}
	return V{T: 'E', E: genEVLeaf(r)}
}

var eqForms = []string{"n", "n", "n", "a", "as", "p"}
var eqOps = []string{"c1", "c2", "c3", "c4", "c5", "c6", "c1", "c2", "-", "u1:" + hx("~=") + ":" + hx("fuzzy"), "u2:" + hx("=") + ":" + hx("comparison"), "c0", "c9", "u3:" + hx("in") + ":" + hx("member"), "v1:" + hx("~~") + ":" + hx("list"), "v1:" + hx("~~") + ":" + hx("list")}
var eqKws = []string{"kw", "k2", "keyword", "", "KW"}

// swapCase inverts the case of every ASCII letter
func swapCase(s string) string {
	b := []byte(s)
	for i, c := range b {
		switch {
		case c >= 'a' && c <= 'z':
			b[i] = c - 32
		case c >= 'A' && c <= 'Z':
			b[i] = c + 32
		}
	}
	return string(b)
}

// a Condition drops an empty-string expression: never generate one
func fixCondExpr(v V) V {
	if (v.T == 's' && v.S == "") || (v.T == 'E' && v.E.C == 'p' && v.E.Ty == 16 && v.E.S == "") {
		return V{T: 'E', E: &EVv{C: 'p', Ty: 16, S: "x", rt: tof("")}}
	}
	if v.T == 'E' && (v.E.C == 'I' || v.E.C == 'J') { // an `any` cannot hold an interface
		return V{T: 'N'}
	}
	return v
}

func genEqElem(r *rand.Rand, depth int) V {
	k := r.Intn(20)
	switch {
	case k == 0:
		return V{T: 'N'}
	case k == 1 && depth < 3:
		return V{T: []byte{'Z', 'Y'}[r.Intn(2)], Form: eqForms[r.Intn(len(eqForms))]}
	case k == 2:
		v := V{T: 'A'}
		for i, n := 0, r.Intn(4); i < n; i++ {
			v.Xs = append(v.Xs, genEqLeaf(r))
		}
		return v
	case k <= 5 && depth < 3:
		return genEqStack(r, depth+1, eqForms[r.Intn(len(eqForms))])
	case k <= 8 && depth < 3:
		return genEqCond(r, depth+1, eqForms[r.Intn(len(eqForms))])
	}
	v := genEqLeaf(r)
	if v.T == 'E' && (v.E.C == 'I' || v.E.C == 'J') {
		return V{T: 'N'}
	}
	return v
}

func genEqStack(r *rand.Rand, depth int, form string) V {
	c := Cfg{Kind: kinds(r)}
	n := r.Intn(5)
	if depth > 1 {
		n = r.Intn(4)
	}
	if r.Intn(3) == 0 {
		c.Cap = n + r.Intn(3)
		if c.Cap == 0 {
			c.Cap = 1
		}
	}
	if r.Intn(6) == 0 {
		c.Opt |= fFold
	}
	if c.Kind != 4 && r.Intn(5) == 0 {
		c.Sym = []string{"+", "&", "plus"}[r.Intn(3)] // presentation only: must not enter the kind comparison
	}
	if r.Intn(40) == 0 {
		c.Eqf = 1 + r.Intn(3)
	}
	v := V{T: 'K', Form: form, Cfg: c}
	for i := 0; i < n; i++ {
		v.Xs = append(v.Xs, genEqElem(r, depth))
	}
	return v
}

func genEqCond(r *rand.Rand, depth int, form string) V {
	v := V{T: 'C', Form: form, Kw: eqKws[r.Intn(len(eqKws))], Op: eqOps[r.Intn(len(eqOps))]}
	if r.Intn(40) == 0 {
		v.Cfg.Eqf = 1 + r.Intn(3)
	}
	var ex V
	switch k := r.Intn(10); {
	case k == 0:
		ex = V{T: 'N'}
	case k <= 2 && depth < 3:
		ex = genEqStack(r, depth+1, eqForms[r.Intn(len(eqForms))])
	case k == 3 && depth < 3:
		ex = genEqCond(r, depth+1, eqForms[r.Intn(len(eqForms))])
	default:
		ex = genEqLeaf(r)
	}
	v.Xs = []V{fixCondExpr(ex)}
	return v
}

// ---------------------------------------------------------------------------
// copies and point mutations

func cloneEV(e *EVv) *EVv {
	c := *e
	c.Xs, c.Vs = nil, nil
	for _, x := range e.Xs {
		c.Xs = append(c.Xs, cloneEV(x))
	}
	for _, x := range e.Vs {
		c.Vs = append(c.Vs, cloneEV(x))
	}
	c.Fs = append([]FldMeta(nil), e.Fs...)
	return &c
}

func cloneV(v V) V {
	c := v
	c.Xs = nil
	for _, x := range v.Xs {
		c.Xs = append(c.Xs, cloneV(x))
	}
	c.Cfg.Enc = nil
	if v.E != nil {
		c.E = cloneEV(v.E)
	}
	return c
}

type site struct {
	kind string
	do   func()
}

// otherScalar: a different value of the same type
func otherScalar(r *rand.Rand, e *EVv, t reflect.Type) {
	for k := 0; k < 50; k++ {
		s, nan := genScalar(r, t)
		if !nan && s != e.S {
			e.S, e.Nan = s, false
			return
		}
	}
	panic("cannot find another value")
}

func evType(e *EVv) reflect.Type {
	if e.rt != nil {
		return e.rt
	}
	return buildEV(e).Type()
}

// evSites collects every position inside the leaf e at which a single change makes a difference (kind != "priv")
// or, for private struct fields, makes none (kind "priv").
func evSites(r *rand.Rand, e *EVv, priv bool, out *[]site) {
	tag := func(k string) string {
		if priv {
			return "priv"
		}
		return k
	}
	switch e.C {
	case 'p', 't':
		*out = append(*out, site{tag("leaf"), func() { otherScalar(r, e, evType(e)) }})
	case 'u':
		*out = append(*out, site{tag("leaf"), func() { e.N = (e.N + 1 + r.Intn(3)) % 4 }})
	case 'c':
		*out = append(*out, site{tag("leaf"), func() { e.N = (e.N + 1 + r.Intn(2)) % 3 }})
	case 'P', 'J':
		evSites(r, e.Xs[0], priv, out)
		if e.C == 'J' && !priv {
			// what an interface-typed position holds, reached through one more pointer (or one fewer): `100` against a
			// `*int` to 100 - whatever the verdict is, it is the same in both directions
			*out = append(*out, site{"ptrwrap", func() {
				if e.Xs[0].C == 'P' {
					e.Xs[0] = e.Xs[0].Xs[0]
				} else {
					e.Xs[0] = &EVv{C: 'P', Xs: []*EVv{e.Xs[0]}}
				}
			}})
		}
	case 'Q':
		et := elemTypes[e.Ty]
		for _, x := range e.Xs {
			evSites(r, x, priv, out)
		}
		if !e.Arr {
			*out = append(*out, site{tag("add"), func() {
				i := r.Intn(len(e.Xs) + 1)
				x := genOfType(r, et, 2)
				e.Xs = append(e.Xs[:i:i], append([]*EVv{x}, e.Xs[i:]...)...)
				if e.N < len(e.Xs) {
					e.N = len(e.Xs)
				}
			}})
			if len(e.Xs) > 0 {
				*out = append(*out, site{tag("rem"), func() {
					i := r.Intn(len(e.Xs))
					e.Xs = append(e.Xs[:i:i], e.Xs[i+1:]...)
				}})
			}
			*out = append(*out, site{tag("cap"), func() { e.N = e.N + 1 + r.Intn(2) }})
		}
		for i := range e.Xs {
			for j := i + 1; j < len(e.Xs); j++ {
				if e.Xs[i].String() != e.Xs[j].String() {
					i, j := i, j
					*out = append(*out, site{tag("swap"), func() { e.Xs[i], e.Xs[j] = e.Xs[j], e.Xs[i] }})
				}
			}
		}
	case 'M':
		mt := mapTypes[e.Ty]
		for _, x := range e.Vs {
			evSites(r, x, priv, out)
		}
		has := func(k *EVv) bool {
			for _, x := range e.Xs {
				if x.String() == k.String() {
					return true
				}
			}
			return false
		}
		fresh := func() *EVv {
			for n := 0; n < 50; n++ {
				if k := genOfType(r, mt.Key(), 2); !has(k) && !k.Nan {
					return k
				}
			}
			return nil
		}
		for i := range e.Xs {
			i := i
			*out = append(*out, site{tag("mapkey"), func() { // same length, different key set
				if k := fresh(); k != nil {
					e.Xs[i] = k
				} else {
					otherScalarAny(r, e.Vs[i])
				}
			}})
		}
		*out = append(*out, site{tag("add"), func() {
			if k := fresh(); k != nil {
				e.Xs = append(e.Xs, k)
				e.Vs = append(e.Vs, genOfType(r, mt.Elem(), 2))
			} else if len(e.Xs) > 0 {
				e.Xs, e.Vs = e.Xs[1:], e.Vs[1:]
			}
		}})
		if len(e.Xs) > 0 {
			*out = append(*out, site{tag("rem"), func() {
				i := r.Intn(len(e.Xs))
				e.Xs = append(e.Xs[:i:i], e.Xs[i+1:]...)
				e.Vs = append(e.Vs[:i:i], e.Vs[i+1:]...)
			}})
		}
	case 'T':
		for i, x := range e.Xs {
			evSites(r, x, priv || !e.Fs[i].Exported, out)
		}
	}
}

// otherScalarAny changes the first scalar found below e (fallback when no fresh map key exists)
func otherScalarAny(r *rand.Rand, e *EVv) {
	var ss []site
	evSites(r, e, false, &ss)
	for _, s := range ss {
		if s.kind == "leaf" {
			s.do()
			return
		}
	}
}

func treeSites(r *rand.Rand, v *V, depth int, inner *[]site, outer *[]site) {
	switch v.T {
	case 'E':
		evSites(r, v.E, false, inner)
	case 'i':
		*outer = append(*outer, site{"leaf", func() { v.I += 1 + int64(r.Intn(3)) }})
	case 's':
		*outer = append(*outer, site{"leaf", func() { v.S += "!" }})
	case 'b':
		*outer = append(*outer, site{"leaf", func() { v.B = !v.B }})
	case 'K':
		*outer = append(*outer, site{"kind", func() {
			for k := kinds(r); ; k = kinds(r) {
				if k != v.Cfg.Kind {
					v.Cfg.Kind = k
					return
				}
			}
		}})
		*outer = append(*outer, site{"cap", func() {
			if v.Cfg.Cap == 0 {
				v.Cfg.Cap = len(v.Xs) + 1 + r.Intn(2)
			} else if r.Intn(2) == 0 {
				v.Cfg.Cap = 0
			} else {
				v.Cfg.Cap += 1 + r.Intn(2)
			}
		}})
		if v.Cfg.Cap == 0 || len(v.Xs) < v.Cfg.Cap {
			*outer = append(*outer, site{"add", func() {
				i := r.Intn(len(v.Xs) + 1)
				x := genEqElem(r, 3)
				v.Xs = append(v.Xs[:i:i], append([]V{x}, v.Xs[i:]...)...)
			}})
		}
		if len(v.Xs) > 0 {
			*outer = append(*outer, site{"rem", func() {
				i := r.Intn(len(v.Xs))
				v.Xs = append(v.Xs[:i:i], v.Xs[i+1:]...)
			}})
			*outer = append(*outer, site{"repl", func() { // one element replaced by a different leaf
				i := r.Intn(len(v.Xs))
				for k := 0; k < 50; k++ {
					if x := genEqElem(r, 3); x.String() != v.Xs[i].String() {
						v.Xs[i] = x
						return
					}
				}
			}})
		}
		for i := range v.Xs {
			for j := i + 1; j < len(v.Xs); j++ {
				if v.Xs[i].String() != v.Xs[j].String() {
					i, j := i, j
					*outer = append(*outer, site{"swap", func() { v.Xs[i], v.Xs[j] = v.Xs[j], v.Xs[i] }})
				}
			}
		}
		for i := range v.Xs {
			treeSites(r, &v.Xs[i], depth+1, inner, outer)
		}
	case 'C':
		*outer = append(*outer, site{"kw", func() { v.Kw += "_" }})
		if swapCase(v.Kw) != v.Kw {
			*outer = append(*outer, site{"kwcase", func() { v.Kw = swapCase(v.Kw) }}) // letter case is a difference
		}
		if p := strings.Split(v.Op, ":"); len(p) == 3 && p[0][0] == 'u' {
			// a user-defined operator whose text or context differs in letter case only
			if t := swapCase(unhx(p[1])); t != unhx(p[1]) {
				*outer = append(*outer, site{"opcase", func() { v.Op = p[0] + ":" + hx(t) + ":" + p[2] }})
			}
			if t := swapCase(unhx(p[2])); t != unhx(p[2]) {
				*outer = append(*outer, site{"ctxcase", func() { v.Op = p[0] + ":" + p[1] + ":" + hx(t) }})
			}
		}
		*outer = append(*outer, site{"op", func() {
			for k := 0; ; k++ {
				if o := eqOps[r.Intn(len(eqOps))]; o != v.Op {
					v.Op = o
					return
				}
			}
		}})
		*outer = append(*outer, site{"expr", func() {
			for k := 0; k < 50; k++ {
				if x := fixCondExpr(genEqLeaf(r)); x.String() != v.Xs[0].String() {
					v.Xs[0] = x
					return
				}
			}
		}})
		treeSites(r, &v.Xs[0], depth+1, inner, outer)
	}
}

// mutate returns a copy of a with exactly one point mutation and the mutation's kind
func mutate(r *rand.Rand, a V) (V, string) {
	b := cloneV(a)
	var inner, outer []site
	treeSites(r, &b, 0, &inner, &outer)
	pick := outer
	if len(inner) > 0 && r.Intn(10) < 6 {
		pick = inner // uniform over every position of every leaf
	}
	s := pick[r.Intn(len(pick))]
	s.do()
	if b.T == 'C' {
		b.Xs[0] = fixCondExpr(b.Xs[0])
	}
	fixConds(&b)
	return b, s.kind
}

func fixConds(v *V) {
	for i := range v.Xs {
		fixConds(&v.Xs[i])
	}
	if v.T == 'C' {
		v.Xs[0] = fixCondExpr(v.Xs[0])
	}
}

// presentationOnly flips presentation options on some Stack nodes of v (kind, capacity, content untouched)
func presentationOnly(r *rand.Rand, v *V) {
	if v.T == 'K' && v.Cfg.Eqf == 0 {
		switch r.Intn(6) {
		case 0:
			v.Cfg.Opt ^= fFold
		case 1:
			v.Cfg.Opt ^= fParen
		case 2:
			v.Cfg.Opt ^= fNoPad
		case 3:
			if v.Cfg.Kind != 4 {
				v.Cfg.Sym = []string{"", "&", "sym"}[r.Intn(3)]
			}
		case 4:
			v.Cfg.ID = []string{"", "x", "other"}[r.Intn(3)]
		}
	}
	for i := range v.Xs {
		presentationOnly(r, &v.Xs[i])
	}
}

func genEqPair(r *rand.Rand, id, tier string) string {
	var a V
	if r.Intn(4) == 0 {
		a = genEqCond(r, 0, "n")
	} else {
		a = genEqStack(r, 0, "n")
	}
	switch k := r.Intn(10); {
	case k < 3:
		b := cloneV(a)
		if r.Intn(2) == 0 {
			// the copy differs in presentation options only (case folding, parentheses, padding, symbol, ID):
			// not part of the description, so still equal
			presentationOnly(r, &b)
		}
		return a.String() + " | " + b.String() + " | copy"
	case k == 3 && r.Intn(4) == 0 && a.T == 'K':
		// the same *stack on both sides: the r == o short-cut of stack.isEqual
		return a.String() + " | " + a.String() + " | self"
	}
	b, kind := mutate(r, a)
	return a.String() + " | " + b.String() + " | mut:" + kind
}

func genEqUnit(r *rand.Rand, id, tier string) string {
	leaf := func() V {
		if r.Intn(12) == 0 {
			return V{T: 'N'}
		}
		if r.Intn(10) == 0 {
			// a plain []any (what Unmarshal hands out) holding maps, slices, structs, funcs, pointers: whatever an
			// interface-typed element holds is compared by the rules for that value, never by `==` on the interface
			v := V{T: 'A'}
			for i, n := 0, 1+r.Intn(3); i < n; i++ {
				x := genEqLeaf(r)
				for tries := 0; tries < 6 && !(x.T == 'E' && strings.ContainsRune("QMTPfc", rune(x.E.C))); tries++ {
					x = genEqLeaf(r)
				}
				v.Xs = append(v.Xs, x)
			}
			return v
		}
		if r.Intn(8) == 0 {
			return genEqElem(r, 2)
		}
		v := genEqLeaf(r)
		if v.T == 'E' && (v.E.C == 'I' || v.E.C == 'J') {
			return V{T: 'N'}
		}
		return v
	}
	if r.Intn(25) == 0 {
		// two map[string]any of the same size whose members hold explicit nils (and the odd number), with ONE key that the
		// other map does not have: a missing member is not a member that holds nil
		n := 1 + r.Intn(3)
		mk := func() *EVv { return &EVv{C: 'M', Ty: 2} }
		x, y := mk(), mk()
		odd := r.Intn(n)
		for i := 0; i < n; i++ {
			kx, ky := fmt.Sprintf("k%d", i), fmt.Sprintf("k%d", i)
			if i == odd {
				ky = "other"
			}
			val := func() *EVv {
				if i != odd && r.Intn(3) == 0 {
					return &EVv{C: 'J', Xs: []*EVv{{C: 'p', Ty: 1, S: strconv.Itoa(i)}}}
				}
				return &EVv{C: 'I'}
			}
			v := val()
			x.Xs = append(x.Xs, &EVv{C: 'p', Ty: 16, S: kx})
			y.Xs = append(y.Xs, &EVv{C: 'p', Ty: 16, S: ky})
			x.Vs = append(x.Vs, v)
			y.Vs = append(y.Vs, v)
		}
		a, b := V{T: 'E', E: x}, V{T: 'E', E: y}
		if r.Intn(2) == 0 {
			a, b = b, a
		}
		return a.String() + " | " + b.String() + " | mut:mapkey"
	}
	if r.Intn(25) == 0 {
		// two maps with the same keys and values whose key TYPES differ (same kind): a type mismatch, reported as such
		n := 1 + r.Intn(3)
		x := &EVv{C: 'M', Ty: 9}
		y := &EVv{C: 'M', Ty: 1}
		if r.Intn(2) == 0 {
			x.Ty, y.Ty = 10, 3
		}
		for i := 0; i < n; i++ {
			if x.Ty == 9 {
				k := fmt.Sprintf("k%d", i)
				x.Xs = append(x.Xs, &EVv{C: 't', Ty: 2, S: k})
				y.Xs = append(y.Xs, &EVv{C: 'p', Ty: 16, S: k})
				x.Vs = append(x.Vs, &EVv{C: 'p', Ty: 1, S: strconv.Itoa(i)})
				y.Vs = append(y.Vs, &EVv{C: 'p', Ty: 1, S: strconv.Itoa(i)})
			} else {
				x.Xs = append(x.Xs, &EVv{C: 't', Ty: 1, S: strconv.Itoa(i)})
				y.Xs = append(y.Xs, &EVv{C: 'p', Ty: 1, S: strconv.Itoa(i)})
				x.Vs = append(x.Vs, &EVv{C: 'p', Ty: 16, S: "v"})
				y.Vs = append(y.Vs, &EVv{C: 'p', Ty: 16, S: "v"})
			}
		}
		a, b := V{T: 'E', E: x}, V{T: 'E', E: y}
		if r.Intn(2) == 0 {
			a, b = b, a
		}
		return a.String() + " | " + b.String() + " | other"
	}
	if r.Intn(15) == 0 {
		// a slice and a shorter view of the SAME backing array (x[:n-1], x[:0]): one element fewer is a difference,
		// wherever the two slices keep their elements
		for tries := 0; tries < 40; tries++ {
			v := genEqLeaf(r)
			if v.T == 'E' && v.E.C == 'Q' && !v.E.Arr && len(v.E.Xs) >= 1 {
				keep := len(v.E.Xs) - 1
				if r.Intn(3) == 0 {
					keep = 0
				}
				y := *v.E
				y.Xs = append([]*EVv{}, v.E.Xs[:keep]...)
				b := V{T: 'E', E: &y}
				return v.String() + " | " + b.String() + " | reslice"
			}
		}
	}
	a := leaf()
	switch k := r.Intn(10); {
	case k < 3:
		return a.String() + " | " + cloneV(a).String() + " | copy"
	case k < 5:
		return a.String() + " | " + leaf().String() + " | other"
	}
	b := cloneV(a)
	var inner, outer []site
	treeSites(r, &b, 0, &inner, &outer)
	all := append(inner, outer...)
	if len(all) == 0 {
		return a.String() + " | " + leaf().String() + " | other"
	}
	s := all[r.Intn(len(all))]
	s.do()
	return a.String() + " | " + b.String() + " | mut:" + s.kind
}

// ---------------------------------------------------------------------------
// runners

var eqMsgs = map[string]string{
	"Not initialized": "notInit",
	"Cannot perform equality assertion; bad input":      "badInput",
	"Capacity or length mismatch":                       "capLen",
	"Stack kind mismatch":                               "kind",
	"Condition keyword mismatch":                        "condKw",
	"Condition operator mismatch":                       "condOp",
	"Condition operator (context) mismatch":             "condOpCtx",
	"Channel(s) invalid":                                "chanInvalid",
	"Channel kind mismatch":                             "chanKind",
	"Channel type mismatch":                             "chanType",
	"Channel mismatch":                                  "chanMismatch",
	"Nil functions incomparable":                        "funcNil",
	"Function kind mismatch":                            "funcKind",
	"Function type mismatch":                            "funcType",
	"primitive mismatch":                                "primMismatch",
	"primitive incomparable to non-primitive":           "primIncomparable",
	"Unsupported type":                                  "unsupported",
	"UnsafePointer mismatch":                            "uptrMismatch",
	"Uintptr or unsafepointer kind mismatch":            "uptrKind",
	"Cannot compare stackage instances, cannot convert": "cannotConvert",
	"Cannot compare non-map instances":                  "mapNonMap",
	"Map type mismatch":                                 "mapType",
	"Map length mismatch":                               "mapLen",
	"Map key mismatch":                                  "mapKey",
	"Struct type mismatch":                              "structType",
	"Struct field number mismatch":                      "structNum",
	"Struct anonymous field mismatch failed":            "structAnon",
	"Struct field visibility mismatch":                  "structVis",
	"Slice/array kind mismatch":                         "seqKind",
	"Slice/array capacity or length mismatch":           "seqCapLen",
}

func eqVerdict(err error) string {
	if err == nil {
		return "eq"
	}
	m := err.Error()
	if c, ok := eqMsgs[m]; ok {
		return "ne:" + c
	}
	if len(m) > 1 && m[0] == 'E' {
		if _, e := strconv.Atoi(m[1:]); e == nil {
			return "ne:user" + m[1:]
		}
	}
	return "ne:?" + hx(m)
}

func isEq(a, b any) string {
	return guard(func() string {
		switch tv := a.(type) {
		case stackage.Stack:
			return eqVerdict(tv.IsEqual(b))
		case stackage.Condition:
			return eqVerdict(tv.IsEqual(b))
		}
		return "NOHANDLE"
	})
}

func runEqPair(payload string) string {
	parts := strings.Split(payload, " | ")
	va, _ := parseV(strings.Fields(parts[0]))
	vb, _ := parseV(strings.Fields(parts[1]))
	a := Build(va)
	b := Build(vb)
	if len(parts) > 2 && parts[2] == "self" {
		b = a
	}
	return "ab=" + isEq(a, b) + " ba=" + isEq(b, a)
}

func valEq(x, y any) string {
	return guard(func() string {
		r := stackage.VerifCall("valuesEqual", x, y)
		if r[0] == nil {
			return "eq"
		}
		return eqVerdict(r[0].(error))
	})
}

func runEqUnit(payload string) string {
	parts := strings.Split(payload, " | ")
	va, _ := parseV(strings.Fields(parts[0]))
	vb, _ := parseV(strings.Fields(parts[1]))
	a := Build(va)
	b := Build(vb)
	if len(parts) > 2 && parts[2] == "reslice" {
		// b is a shorter view of a's backing array (same capacity, as the literal says)
		b = reflect.ValueOf(a).Slice(0, len(vb.E.Xs)).Interface()
	}
	return "ab=" + valEq(a, b) + " ba=" + valEq(b, a)
}

// ---------------------------------------------------------------------------
// stream `eqseqs`: a slice / array of Stack or Condition handles as one leaf (repair F33)

func genEqSeqs(r *rand.Rand, id, tier string) string {
	kind := []string{"sl", "ar", "ps", "co"}[r.Intn(4)]
	one := func() V {
		if kind == "co" {
			return genEqCond(r, 1, "n")
		}
		return genEqStack(r, 1, "n")
	}
	var as []V
	for i, n := 0, r.Intn(4); i < n; i++ {
		as = append(as, one())
	}
	bs := make([]V, len(as))
	for i := range as {
		bs[i] = cloneV(as[i])
	}
	tag := "copy"
	switch k := r.Intn(10); {
	case k < 3:
	case k < 7 && len(bs) > 0:
		i := r.Intn(len(bs)) // one point mutation in one element, at any position
		var m string
		bs[i], m = mutate(r, bs[i])
		tag = "mut:" + m
	case k == 7 && len(bs) > 1:
		i := r.Intn(len(bs) - 1)
		bs[i], bs[i+1] = bs[i+1], bs[i]
		tag = "swap"
	case k == 8 && len(bs) > 0:
		bs = bs[:len(bs)-1]
		tag = "fewer"
	default:
		bs = append(bs, one())
		tag = "more"
	}
	return kind + " | " + V{T: 'A', Xs: as}.String() + " | " + V{T: 'A', Xs: bs}.String() + " | " + tag
}

func handleSeq(kind string, vs []V) any {
	var et reflect.Type
	switch kind {
	case "co":
		et = reflect.TypeOf(stackage.Condition{})
	case "ps":
		et = reflect.TypeOf(&stackage.Stack{})
	default:
		et = reflect.TypeOf(stackage.Stack{})
	}
	var sv reflect.Value
	if kind == "ar" {
		sv = reflect.New(reflect.ArrayOf(len(vs), et)).Elem()
	} else {
		sv = reflect.MakeSlice(reflect.SliceOf(et), len(vs), len(vs))
	}
	for i, v := range vs {
		x := reflect.ValueOf(Build(v))
		if kind == "ps" {
			p := reflect.New(x.Type())
			p.Elem().Set(x)
			x = p
		}
		sv.Index(i).Set(x)
	}
	return sv.Interface()
}

func runEqSeqs(payload string) string {
	parts := strings.Split(payload, " | ")
	va, _ := parseV(strings.Fields(parts[1]))
	vb, _ := parseV(strings.Fields(parts[2]))
	a := stackage.And().Push(handleSeq(parts[0], va.Xs))
	b := stackage.And().Push(handleSeq(parts[0], vb.Xs))
	three := func(s string) string {
		if strings.HasPrefix(s, "ne") {
			return "ne"
		}
		return s
	}
	return "ab=" + three(isEq(a, b)) + " ba=" + three(isEq(b, a))
}

func init() {
	streams["eqseqs"] = &stream{gen: genEqSeqs, run: runEqSeqs}
	streams["eqpair"] = &stream{gen: genEqPair, run: runEqPair}
	streams["eqmut"] = &stream{gen: genEqMut, run: runEqMut}
	streams["equnit"] = &stream{gen: genEqUnit, run: runEqUnit}
}

// ---------------------------------------------------------------------------
// stream `eqmut` (C05): the verdict is about what the two trees hold NOW. A and an equal copy B are compared first (both
// ways); then B is changed in place, somewhere below its top level, through the handle of a nested Stack or Condition
// (Push / Replace / SetKeyword on the nested instance); then they are compared again. The case line carries A and the
// description B' of B after the change, so the model and the specification answer for (A, B').
//
//	A | B' | seq | <i.j.k path through nested Stacks> | push <lit> / rep <lit> <i> / kw <hex>

func genEqMut(r *rand.Rand, id, tier string) string {
	for try := 0; try < 200; try++ {
		a := genEqStack(r, 1, "n")
		a.Cfg.Eqf = 0
		type site struct {
			path []int
			node *V
		}
		b := cloneV(a)
		var sites []site
		var walk func(v *V, path []int)
		walk = func(v *V, path []int) {
			for i := range v.Xs {
				x := &v.Xs[i]
				p := append(append([]int{}, path...), i)
				switch x.T {
				case 'K':
					if x.Cfg.Opt&fRO == 0 {
						sites = append(sites, site{p, x})
					}
					walk(x, p)
				case 'C':
					sites = append(sites, site{p, x})
				}
			}
		}
		walk(&b, nil)
		if len(sites) == 0 {
			continue
		}
		st := sites[r.Intn(len(sites))]
		var ps []string
		for _, i := range st.path {
			ps = append(ps, strconv.Itoa(i))
		}
		op := ""
		if st.node.T == 'C' {
			nk := st.node.Kw + "x"
			st.node.Kw = nk
			op = "kw " + hx(nk)
		} else {
			leaf := V{T: 's', S: fmt.Sprintf("m%d", r.Intn(100))}
			full := st.node.Cfg.Cap != 0 && len(st.node.Xs) >= st.node.Cfg.Cap
			var reps []int
			for i, x := range st.node.Xs {
				if x.T != 'N' {
					reps = append(reps, i)
				}
			}
			switch {
			case !full && (len(reps) == 0 || r.Intn(2) == 0):
				st.node.Xs = append(st.node.Xs, leaf)
				op = "push " + leaf.String()
			case len(reps) > 0:
				i := reps[r.Intn(len(reps))]
				if st.node.Xs[i].String() == leaf.String() {
					continue
				}
				st.node.Xs[i] = leaf
				op = fmt.Sprintf("rep %s %d", leaf, i)
			default:
				continue
			}
		}
		return a.String() + " | " + b.String() + " | seq | " + strings.Join(ps, ".") + " | " + op
	}
	a := genEqStack(r, 1, "n")
	return a.String() + " | " + cloneV(a).String() + " | copy"
}

func runEqMut(payload string) string {
	parts := strings.Split(payload, " | ")
	va, _ := parseV(strings.Fields(parts[0]))
	a := Build(va)
	if len(parts) < 5 {
		vb, _ := parseV(strings.Fields(parts[1]))
		b := Build(vb)
		return "ab=" + isEq(a, b) + " ba=" + isEq(b, a)
	}
	b := Build(va) // an equal copy, built independently
	_, _ = isEq(a, b), isEq(b, a)
	_, _ = isEq(a, b), isEq(b, a) // (twice: whatever is remembered from the first time must not decide the third)
	done := guard(func() string {
		cur, _ := stackage.ConvertStack(b)
		idx := strings.Split(parts[3], ".")
		for k, is := range idx {
			x, _ := cur.Index(atoi64(is))
			if k == len(idx)-1 {
				t := strings.Fields(parts[4])
				switch t[0] {
				case "kw":
					c, ok := stackage.ConvertCondition(x)
					if !ok {
						return "NAV"
					}
					c.SetKeyword(unhx(t[1]))
				case "push":
					s, ok := stackage.ConvertStack(x)
					if !ok {
						return "NAV"
					}
					lv, _ := parseV(t[1:])
					s.Push(Build(lv))
				case "rep":
					s, ok := stackage.ConvertStack(x)
					if !ok {
						return "NAV"
					}
					lv, rest := parseV(t[1:])
					if !s.Replace(Build(lv), atoi64(rest[0])) {
						return "NAV"
					}
				}
				return "ok"
			}
			nx, ok := stackage.ConvertStack(x)
			if !ok {
				return "NAV"
			}
			cur = nx
		}
		return "NAV"
	})
	if done != "ok" {
		return "MUT-" + done
	}
	return "ab=" + isEq(a, b) + " ba=" + isEq(b, a)
}
