package main

import (
	"fmt"

	stackage "github.com/JesseCoretta/go-stackage"
)

// primeFailed: set when the priming calls themselves show a violation (a converter accepted what is not a Stack /
// Condition, or one of the calls panicked); every case of the run then reports it
var primeFailed string

// primeConverters: whether a value is a Stack / Condition (alias) is a question about that value, not about its type, its
// type's name or what was seen of that type earlier in the process. Before the cases of a run (and every so often between
// them) the code under test is shown nil pointers, zero-valued instances and pointers to zero-valued instances of every
// type the harness uses for nested instances - through the converters and through every method that consults them. On a
// correct library this leaves nothing behind; anything that remembers "this type is not a Stack" (or "is one") from these
// calls makes the cases that follow fail.
func primeConverters() {
	defer func() { recover() }()
	var (
		zs  stackage.Stack
		zc  stackage.Condition
		zas AStack
		zss SStack
		zac ACond
		zsc SCond
		np1 *stackage.Stack
		np2 *AStack
		np3 *SStack
		np4 *stackage.Condition
		np5 *ACond
		np6 *SCond
	)
	vals := []any{zs, zc, zas, zss, zac, zsc, np1, np2, np3, np4, np5, np6, &zs, &zc, &zas, &zss, &zac, &zsc, &np2, &np5, nil,
		Strg{}, &Strg{}, Opq{}, UOp{}, (*UOp)(nil), LOp(nil), []any{}, []any(nil), map[string]int(nil), (func())(nil), 0, "", struct{}{}}
	for i, v := range vals {
		func() {
			defer func() {
				if recover() != nil && primeFailed == "" {
					primeFailed = fmt.Sprintf("converter panicked on value #%d (%T)", i, v)
				}
			}()
			// nil, zero-valued instances, pointers to them and unrelated values: none of them is a Stack or a Condition
			if _, ok := stackage.ConvertStack(v); ok && primeFailed == "" {
				primeFailed = fmt.Sprintf("ConvertStack accepted value #%d (%T)", i, v)
			}
			if _, ok := stackage.ConvertCondition(v); ok && primeFailed == "" {
				primeFailed = fmt.Sprintf("ConvertCondition accepted value #%d (%T)", i, v)
			}
		}()
	}
	// a freed instance behind a pointer is a zero instance behind a pointer
	func() {
		defer func() {
			if recover() != nil && primeFailed == "" {
				primeFailed = "a pointer to a freed instance made a call panic"
			}
		}()
		fs := stackage.And().Push(1)
		ps := &fs
		ps.Free()
		fc := stackage.Cond("k", stackage.Eq, 1)
		pc := &fc
		pc.Free()
		if _, ok := stackage.ConvertStack(ps); ok && primeFailed == "" {
			primeFailed = "ConvertStack accepted a pointer to a freed Stack"
		}
		if _, ok := stackage.ConvertCondition(pc); ok && primeFailed == "" {
			primeFailed = "ConvertCondition accepted a pointer to a freed Condition"
		}
		live := stackage.And().Push(1, ps, pc)
		_ = live.String()
		live.Unmarshal()
		live.Traverse(1, 0)
		live.IsEqual(ps)
		live.Transfer(ps)
		stackage.Cond("k", stackage.Eq, 1).IsEqual(pc)
	}()
	for _, mk := range []func(...int) stackage.Stack{stackage.And, stackage.Or, stackage.Not, stackage.List, stackage.Basic} {
		func() {
			defer func() { recover() }()
			s := mk()
			s.Push(vals...)
			s.IsNesting()
			_ = s.String()
			s.Unmarshal()
			for i := 0; i < s.Len(); i++ {
				s.Traverse(i, 0)
			}
			o := mk()
			o.Push(vals...)
			s.IsEqual(o)
			o.IsEqual(s)
			s.Transfer(o)
			s.Reveal()
			s.Defrag()
			n := mk().NoNesting(true)
			n.Push(vals...)
			n.IsNesting()
		}()
	}
	for _, v := range vals {
		func() {
			defer func() { recover() }()
			var c stackage.Condition
			c.Init()
			c.SetKeyword("k")
			c.SetOperator(stackage.Eq)
			c.SetExpression(v)
			c.IsNesting()
			c.Len()
			_ = c.String()
			c.Valid()
			d := stackage.Cond("k", stackage.Eq, v)
			c.IsEqual(d)
			var n stackage.Condition
			n.Init()
			n.NoNesting(true)
			n.SetExpression(v)
		}()
	}
}
