package main

// Canonical configuration dump shared by the option/guard properties (C18, and C09/C11/C17 streams).
// Lean counterpart: lean/Stackage/Driver/Dump.lean (`dumpCfg`). Keep the two in step.
//
// Format (one line, blank-separated tokens, no " ; " and no " | " inside):
//
//	k<kind> c<cap> o<opt> f<0|1> sym:<hex> d:<hex> e:<enc> id:<hex> cat:<hex> lvl<n> aux:<a> m<0|1> err:<cls> pol:<bits> n<len>
//	/ P<0|1> D<0|1> R<0|1> N<0|1> E<0|1> Q<0|1> ID:<hex> CAT:<hex> DL:<hex> LL:<hex> AX:<a>
//
// First half = stackage.VerifDump (raw state):
//
//	k     stackType code (5 = Condition)            c    raw cfg.cap (user capacity + 1, or 0)
//	o     raw option bit-field (decimal)            f    FIFO latch
//	sym d id cat   symbol, list delimiter, ID, category: hex-encoded UTF-8, "-" when empty
//	e     encapsulation groups: "0" when there is none, else groups joined by "+", the strings of a
//	      group hex-encoded and joined by "/", an empty group printed as "()"
//	lvl   raw log-level word (decimal)
//	aux   "-" nil map, "new" an empty map the library allocated itself, "<id>" the harness map with that identity
//	      (auxOf(id) has exactly id entries; "<id>!" if its length changed)
//	m     mutex present                              err  "-" or the error class (E<n>, E? for a library error)
//	pol   presence of ppf vpf rpf eqf lss umf maf evl, one 0/1 digit each
//	n     number of user slots of a Stack; for a Condition 1 if an expression is set, else 0
//
// Second half = the public getters: IsParen, IsPadded, IsReadOnly, CanNest, IsEncap, IsFIFO, ID, Category,
// Delimiter (Stack only, "-" for a Condition), LogLevels, Auxiliary.
// A zero / uninitialised instance prints "ZERO"; anything that is neither a Stack nor a Condition "NOCFG".

import (
	"fmt"
	"reflect"
	"regexp"
	"strconv"
	"strings"

	stackage "github.com/JesseCoretta/go-stackage"
)

var auxStore = map[int]stackage.Auxiliary{}

// auxOf returns the harness Auxiliary map with identity id (id >= 1); it holds id entries.
func auxOf(id int) stackage.Auxiliary {
	storeMu.Lock()
	defer storeMu.Unlock()
	if a, ok := auxStore[id]; ok {
		return a
	}
	a := make(stackage.Auxiliary, id)
	for i := 0; i < id && id < 8; i++ { // ids from 8 on: maps the caller made but has not filled yet (empty, not nil)
		a["k"+strconv.Itoa(i)] = i
	}
	auxStore[id] = a
	return a
}

func auxName(a stackage.Auxiliary) string {
	if a == nil {
		return "-"
	}
	return auxNamePtr(false, reflect.ValueOf(a).Pointer(), len(a))
}

func auxNamePtr(isNil bool, p uintptr, n int) string {
	if isNil {
		return "-"
	}
	storeMu.Lock()
	defer storeMu.Unlock()
	for id, m := range auxStore {
		if reflect.ValueOf(m).Pointer() == p {
			if (id < 8 && n != id) || (id >= 8 && n != 0) {
				return strconv.Itoa(id) + "!"
			}
			return strconv.Itoa(id)
		}
	}
	if n == 0 {
		return "new"
	}
	return "?"
}

func encStr(enc [][]string) string {
	if len(enc) == 0 {
		return "0"
	}
	var gs []string
	for _, g := range enc {
		if len(g) == 0 {
			gs = append(gs, "()")
			continue
		}
		var hs []string
		for _, s := range g {
			hs = append(hs, hx(s))
		}
		gs = append(gs, strings.Join(hs, "/"))
	}
	return strings.Join(gs, "+")
}

var errClassRe = regexp.MustCompile(`^E[0-9]+$`)

func present(ps ...uintptr) string {
	var b strings.Builder
	for _, p := range ps {
		if p != 0 {
			b.WriteByte('1')
		} else {
			b.WriteByte('0')
		}
	}
	return b.String()
}

// DumpCfg prints the canonical dump of x (see the format above).
func DumpCfg(x any) string {
	return guard(func() string {
		var st stackage.VerifState
		var getters string
		if s, ok := stackage.ConvertStack(x); ok || isNativeStack(x) {
			if !ok {
				s = x.(stackage.Stack)
			}
			st = stackage.VerifDump(s)
			if !st.Init {
				return "ZERO"
			}
			getters = fmt.Sprintf("P%s D%s R%s N%s E%s Q%s ID:%s CAT:%s DL:%s LL:%s AX:%s", b01(s.IsParen()), b01(s.IsPadded()),
				b01(s.IsReadOnly()), b01(s.CanNest()), b01(s.IsEncap()), b01(s.IsFIFO()), hx(s.ID()), hx(s.Category()),
				hx(s.Delimiter()), hx(s.LogLevels()), auxName(s.Auxiliary()))
		} else if c, ok := stackage.ConvertCondition(x); ok || isNativeCond(x) {
			if !ok {
				c = x.(stackage.Condition)
			}
			st = stackage.VerifDump(c)
			if !st.Init {
				return "ZERO"
			}
			getters = fmt.Sprintf("P%s D%s R%s N%s E%s Q%s ID:%s CAT:%s DL:%s LL:%s AX:%s", b01(c.IsParen()), b01(c.IsPadded()),
				b01(c.IsReadOnly()), b01(c.CanNest()), b01(c.IsEncap()), b01(c.IsFIFO()), hx(c.ID()), hx(c.Category()),
				"-", hx(c.LogLevels()), auxName(c.Auxiliary()))
		} else {
			return "NOCFG"
		}
		n := st.RawLen - 1
		if st.IsCond {
			n = 1
			if st.ExNil {
				n = 0
			}
		}
		errs := "-"
		if st.HasErr {
			errs = "E?"
			if errClassRe.MatchString(st.Err) {
				errs = st.Err
			}
		}
		auxs := auxNamePtr(st.AuxNil, st.AuxPtr, st.AuxLen)
		return fmt.Sprintf("k%d c%d o%d f%s sym:%s d:%s e:%s id:%s cat:%s lvl%d aux:%s m%s err:%s pol:%s n%d / %s", st.Kind, st.Cap, st.Opt,
			b01(st.Fifo), hx(st.Sym), hx(st.Ljc), encStr(st.Enc), hx(st.ID), hx(st.Cat), st.Lvl, auxs, b01(st.Mtx), errs,
			present(st.Ppf, st.Vpf, st.Rpf, st.Eqf, st.Lss, st.Umf, st.Maf, st.Evl), n, getters)
	})
}

func isNativeStack(x any) bool { _, ok := x.(stackage.Stack); return ok }
func isNativeCond(x any) bool  { _, ok := x.(stackage.Condition); return ok }
