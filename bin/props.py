"""Per-property configuration for bin/check."""
import re

COMMON_MODELLED = [
    "Go slices modelled as lists (DESIGN §4.2)", "Go int as Int with explicit wrap64 at arithmetic sites",
    "reflect outcomes as data (DESIGN §4.4)", "user closures as pure functions",
]

PROPS = {
    "C01": {
        "lean": ["Stackage.Props.C01"],
        "streams": [{"name": "hist", "quick": 3000, "thorough": 60000}],
        "rule": "random histories of the 8 content mutators (+ FIFO / index-option switches) with boundary-biased indices on stacks of "
                "every kind, LIFO/FIFO, capacity none or 1..6; full observation (Len, Index over [-Len-1, Len+1], Front, Back, IsEmpty, return "
                "values) after every step; distinct = distinct case text; non-trivial = at least 3 operations of at least 2 different kinds",
        "modelled": COMMON_MODELLED,
        "assumptions": ["no push policy installed (C14 covers policies)", "lengths < 2^62, ints are 64-bit"],
    },
    "C08": {
        "lean": ["Stackage.Props.C08"],
        "streams": [{"name": "histx", "quick": 3000, "thorough": 60000}],
        "rule": "histories of the content mutators whose int arguments are drawn from {MinInt, MinInt+1, -Len-1..Len+1, MaxInt} on stacks of "
                "length 0..4, all four index-option combinations, every kind; after each call Len/Index*/Front/Back/Cap/Avail are re-read; "
                "non-trivial = at least 3 operations of at least 2 kinds",
        "modelled": COMMON_MODELLED,
        "assumptions": ["lengths < 2^62, ints are 64-bit"],
    },
    "C03": {
        "lean": ["Stackage.Props.C03"],
        "streams": [{"name": "capx", "quick": 3000, "thorough": 60000}],
        "rule": "histories hugging the capacity boundary: push batches that partly fit, Insert, Transfer-into, pop/remove/reset then grow again; "
                "k in 1..6 (and no capacity), every kind, LIFO/FIFO; Len/Cap/Avail/IsFull and return values compared after every step; "
                "non-trivial = at least 3 operations of at least 2 kinds",
        "modelled": COMMON_MODELLED,
        "assumptions": ["Marshal-into is covered through Push (C16 check exercises Marshal into initialised receivers)"],
    },
    "C13": {
        "lean": ["Stackage.Props.C13"],
        "streams": [{"name": "nest", "quick": 3000, "thorough": 60000}],
        "rule": "push batches mixing stacks, aliases (with/without String), pointers to aliases, zero-valued instances, Conditions, nil and primitives, "
                "interleaved with switching no-nesting on/off, on every kind; content, CanNest and IsNesting compared after every step",
        "modelled": COMMON_MODELLED,
    },
    "C14": {
        "lean": ["Stackage.Props.C14"],
        "streams": [{"name": "pol", "quick": 3000, "thorough": 60000}],
        "rule": "push batches against five push policies (reject nil / strings / ints>5 / nothing / everything) with install/replace/remove, with and "
                "without capacity; content and Err() class compared after every step",
        "modelled": COMMON_MODELLED,
        "assumptions": ["policies are pure functions of the offered value"],
    },
    "C15": {
        "lean": ["Stackage.Props.C15"],
        "streams": [{"name": "xfer", "quick": 3000, "thorough": 60000}],
        "rule": "|src| 0..5 x |dst| 0..5 x capacity none or 1..6 x destination forms {native, alias, alias with String, pointer, read-only, zero, foreign} x "
                "source LIFO/FIFO with nil elements, some destinations with push policy / no-nesting; result flag, destination and source content compared",
        "modelled": COMMON_MODELLED,
        "assumptions": ["source and destination are distinct objects (s.Transfer(s) does not terminate; outside the model)"],
    },
    "C20": {
        "lean": ["Stackage.Props.C20"],
        "streams": [{"name": "revealtrees", "quick": 4000, "thorough": 80000}],
        "rule": "random trees, receiver at depth 0 and stacks down to depth 5, every kind (AND/OR/NOT/LIST/BASIC), parenthetical flags on stacks and "
                "Conditions, chains of 1-4 single-element wrappers (mostly removable ones), Conditions holding stacks / Conditions / leaves (also as only "
                "element, also read-only / no-nesting / with an error, which makes SetExpression refuse), empty stacks, nil elements, zero-valued "
                "Stack / Condition elements, []any elements, alias forms a/as/p on stacks and Conditions, forward/negative index options, read-only "
                "nested stacks, mutex on none / some / all nodes; the real Reveal() runs under a 3 s watchdog (timeout = DEADLOCK) with recover; the "
                "resulting tree is read back through VerifDump (kinds, option bits, forms, leaves, keyword/operator) and compared with the heap "
                "model's tree together with the order of mutex acquisitions (VerifHook); distinct = distinct tree text; non-trivial = the receiver "
                "holds at least two nested Stack/Condition nodes",
        "explanation": "Observation blocks: L leaves, NF normal form, KP kept (parenthetical / NOT) nodes, D depth did not grow, R reachable(before, after), "
                       "T resulting tree, X lock order. The S line has the five specification blocks computed by Lean from the INPUT tree alone "
                       "(leaves/nf/kept before, D 1, R 1); impl-vs-spec compares those five blocks (the implementation's are computed by the harness "
                       "with Go ports of Spec/Unwrap.lean, used only to tell a specification failure from a model divergence); impl-vs-model compares "
                       "all seven blocks, and the model's five specification blocks are computed by Lean (leaves, nf, kept, depth, the verified "
                       "decision procedure `reachable`) on the model's tree, which the T block shows to be the implementation's tree.",
        "modelled": COMMON_MODELLED + ["object identity of nested stacks as an explicit heap (node id -> slots / condition)",
                                       "sync.Mutex as a non-re-entrant lock held for the duration of stack.reveal (lock/defer unlock)"],
        "assumptions": ["no Go stack object occurs at two places of the input tree (generators never alias; the theorems only need acyclicity)",
                        "elements are never non-nil pointers to the native Stack / Condition types (outside the value universe)",
                        "nil *Stack / *Condition elements are excluded from the random stream: they make Reveal panic (open defect, see "
                        "harness/corpus/C20-pending and C20_nilptr_panics); VERIF_C20_NILPTR=1 includes them"],
    },
}


def _project_obs(text, keep):
    """keep only the observation token classes in `keep`:
    ret (return values), L, I (the Index block), F, B, E, c, a, u, N, G, R; src{..}/dst{..} blocks are projected recursively"""
    out, toks, k = [], text.split(" "), 0
    seenL = False
    while k < len(toks):
        t = toks[k]
        if t.startswith("src{") or t.startswith("dst{"):
            depth, j = 0, k
            while True:
                depth += toks[j].count("{") - toks[j].count("}")
                if depth <= 0:
                    break
                j += 1
            inner = " ".join(toks[k:j + 1])
            head, body = inner[:4], inner[4:-1]
            out.append(head + _project_obs(body, keep) + "}")
            k = j + 1
            continue
        if t == "[" or t.startswith("["):
            j = k
            while not toks[j].endswith("]"):
                j += 1
            if "I" in keep:
                out.append(" ".join(toks[k:j + 1]))
            k = j + 1
            continue
        m = re.fullmatch(r"L-?\d+", t)
        if m:
            seenL = True
            if "L" in keep:
                out.append(t)
        elif not seenL:
            if "ret" in keep:
                out.append(t)
        else:
            cls = t[:1]
            if cls in keep:
                out.append(t)
            elif cls not in "FBEcauNGR":
                out.append(t)
        k += 1
    return " ".join(out)


def _keep(*classes):
    ks = set(classes)
    def f(out):
        return " ; ".join(_project_obs(st, ks) for st in out.split(" ; "))
    return f


def _c03(out):
    """C03 looks at Len/Cap/Avail/IsFull. A Transfer-into step is projected to the invariants only (its result flag and
    all-or-nothing behaviour belong to C15): Cap constant, Avail == Cap-Len, IsFull == (Len==Cap), Len <= Cap."""
    steps = []
    for st in out.split(" ; "):
        pr = _project_obs(st, {"ret", "L", "c", "a", "u"})
        if "src{" in st:
            m = re.search(r"\} L(-?\d+) c(-?\d+) a(-?\d+) u([01])", pr)
            if m:
                L, c, a, u = int(m.group(1)), int(m.group(2)), int(m.group(3)), m.group(4)
                okc = (c == -1 and a == -1 and u == "0") or (c > 0 and L <= c and a == c - L and (u == "1") == (L == c))
                pr = "xferto c%d inv=%s" % (c, okc)
        steps.append(pr)
    return " ; ".join(steps)


def _c20_spec_blocks(s):
    return " ; ".join(b for b in s.split(" ; ") if not (b == "X" or b == "T" or b.startswith("T ") or b.startswith("X ")))


class _C20Spec(str):
    """The S line of C20: it has no T (tree) and X (lock order) block, because the specification is computed from the input
    alone. It equals an observation iff the observation's specification blocks (L, NF, KP, D, R) equal it. (Python consults
    the str subclass first when a plain str is compared with it.)"""
    def __eq__(self, other):
        return _c20_spec_blocks(str(other)) == str.__str__(self)

    def __ne__(self, other):
        return not self.__eq__(other)

    __hash__ = str.__hash__


def _c20(out):
    """impl-vs-spec: the five specification blocks; impl-vs-model: everything (tree and lock order included)."""
    if out.startswith("L ") and " ; T " not in out and not out.endswith(" ; T"):
        return _C20Spec(out)
    return out


PROJ = {
    "C20": _c20,
    "C01": _keep("ret", "L", "I", "F", "B", "E"),
    "C08": _keep("ret", "L", "I", "F", "B", "E", "c", "a", "u"),
    "C03": _c03,
    "C13": _keep("L", "I", "N", "G"),
    "C14": _keep("L", "I", "R"),
    "C15": _keep("ret", "L", "I"),
}


def projection(pid, stream):
    return PROJ.get(pid, lambda s: s)


def in_scope(pid, stream, tags):
    if pid == "C01":
        return "oos" not in tags.split()
    return True


def nontrivial(pid, payload):
    if pid == "C20":
        toks = payload.split(" ")
        return sum(1 for t in toks if t in ("K", "C")) >= 3
    ops = payload.rsplit(" | ", 1)[-1].split(" ; ")
    kinds = {o.split(" ")[0] for o in ops if o}
    if pid == "C15":
        return " [ ]" not in payload.split(" | ")[0]     # non-empty source
    if pid in ("C13", "C14"):
        return len(ops) >= 2
    return len(ops) >= 3 and len(kinds) >= 2


def _c20_distribution(cases):
    d = {"nodes": {}, "depth": {}, "features": {}}
    def bump(k, key):
        d[k][key] = d[k].get(key, 0) + 1
    for c in cases:
        toks = c.split(" | ", 1)[-1].split(" ")
        n = sum(1 for t in toks if t in ("K", "C"))
        b = min(n // 5 * 5, 40)
        bump("nodes", "%d-%d" % (b, b + 4))
        depth, cur = 1, 1          # the receiver's own level (its elements are listed without brackets)
        for t in toks:
            if t == "[":
                cur += 1
                depth = max(depth, cur)
            elif t == "]":
                cur -= 1
        bump("depth", str(depth))
        text = " ".join(toks)
        for name, pat in (("mutex", r"mtx=1"), ("alias stack", r"K (a|as|p) "), ("alias condition", r"C (a|as|p) "), ("NOT", r"K \S+ k=3"),
                          ("condition holding a stack", r"C \S+ \S+ \S+ \S+ K "), ("stack whose only element is a condition", r"\[ C [^\[\]]* \]"),
                          ("empty stack", r"\[ \]"), ("nil element", r" N "), ("zero Stack/Condition", r" [ZY] "),
                          ("single-element chain >= 2", r"\[ K \S+ \S+ \[ K \S+ \S+ \[ K "), ("forward index option", r"o=(32|33|48|49)")):
            if re.search(pat, text):
                bump("features", name)
        for t in toks:
            m = re.fullmatch(r"(?:\S*,)?o=(\d+)(?:,\S*)?", t)
            if m and int(m.group(1)) & 1:
                bump("features", "parenthetical")
                break
    return d


def distribution(pid, cases):
    if pid == "C20":
        return _c20_distribution(cases)
    d = {"ops": {}, "sizes": {}}
    for c in cases:
        ops = c.rsplit(" | ", 1)[-1].split(" ; ")
        b = min(len(ops) // 10 * 10, 100)
        d["sizes"]["%d-%d ops" % (b, b + 9)] = d["sizes"].get("%d-%d ops" % (b, b + 9), 0) + 1
        for o in ops:
            k = o.split(" ")[0]
            d["ops"][k] = d["ops"].get(k, 0) + 1
    return d
NOT_CLAIMED = {}
