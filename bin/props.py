"""Per-property configuration for bin/check."""
import re

COMMON_MODELLED = [
    "Go slices modelled as lists (DESIGN §4.2)", "Go int as Int with explicit wrap64 at arithmetic sites",
    "reflect outcomes as data (DESIGN §4.4)", "user closures as pure functions",
]

C10_LEVEL = ("proof, partial: proof at lock-segment granularity (mutual exclusion, linearizability for every schedule / number of threads / "
                 "program length, no deadlock, writes under the lock, tied to the source by decide-checked lock-placement facts); word-level data "
                 "races are not expressible in the model - that clause is carried as known finding K-C10-race, with the race detector "
                 "(16-goroutine stress, thorough tier) as supporting evidence")

PROPS = {
    "C01": {
        "lean": ["Stackage.Props.C01"],
        "streams": [{"name": "genfuncs", "quick": 600, "thorough": 12000}, {"name": "hist", "quick": 3000, "thorough": 480000}],
        "rule": "thorough: exhaustive first - every history of at most 4 operations over a 15-letter alphabet (push one / nil / two, pop, insert at 0 / 1 / beyond, remove 0 / 1, replace 0 / 1, swap, reverse, reset, SetFIFO) from 8 starting stacks (empty, one, three with a nil; capacity none / 3; LIFO / FIFO): 433920 cases - then random ones. random histories of the 8 content mutators (+ FIFO / index-option switches) with boundary-biased indices on stacks of "
                "every kind, LIFO/FIFO, capacity none or 1..6; full observation (Len, Index over [-Len-1, Len+1], Front, Back, IsEmpty, return "
                "values) after every step; distinct = distinct case text; non-trivial = at least 3 operations of at least 2 different kinds",
        "modelled": COMMON_MODELLED,
        "assumptions": ["no push policy installed (C14 covers policies)", "lengths < 2^62, ints are 64-bit"],
    },
    "C07": {
        "lean": ["Stackage.Props.C07"],
        "streams": [{"name": "paths", "quick": 3000, "thorough": 60000}, {"name": "condhist", "quick": 1500, "thorough": 30000}, {"name": "freepol", "quick": 600, "thorough": 12000}],
        "rule": "random trees (depth <= 3 quick / 4 thorough, width <= 4; nested stacks as native / alias / alias-with-String / pointer, Conditions with stack and "
                "non-stack expressions, nil slots, zero-valued Stack elements, per-node negative/forward index options) x 1-6 paths each of length 0..depth+2 with "
                "indices from [-1,5] plus MinInt/MaxInt; the value (structurally described) and the flag compared; non-trivial = some path has >= 2 indices",
        "modelled": COMMON_MODELLED,
        "assumptions": ["a Condition alias at the end of a path comes back as the native handle of the same instance (treated as the same value)",
                        "no validity policy on the nodes of the generated trees (the theorem covers them through `Stk.valid`)"],
    },
    "C08": {
        "lean": ["Stackage.Props.C08", "Stackage.Props.C08b"],
        "streams": [{"name": "equnit", "quick": 1500, "thorough": 30000}, {"name": "histx", "quick": 3000, "thorough": 60000}, {"name": "awk", "quick": 2000, "thorough": 40000},
                    {"name": "revealtrees", "quick": 1500, "thorough": 30000}, {"name": "paths", "quick": 1500, "thorough": 30000}],
        "rule": "histories of the content mutators whose int arguments are drawn from {MinInt, MinInt+1, -Len-1..Len+1, MaxInt} on stacks of "
                "length 0..4, all four index-option combinations, every kind; after each call Len/Index*/Front/Back/Cap/Avail are re-read; "
                "non-trivial = at least 3 operations of at least 2 kinds; stream awk: Push / Insert / Replace / IsEqual / Transfer / ConvertStack / "
                "ConvertCondition / Cond(expression) fed with typed nil pointers of depth 1-2 (incl. nil *Alias, *Stack, *Condition, **int), nil maps / funcs / chans / "
                "slices, structs with unexported fields (by value and by pointer), funcs, chans, maps, arrays, errors, zero-valued Stacks / Conditions / aliases, "
                "followed by String / Unmarshal / IsEqual / Transfer / Reveal / Defrag / Traverse on the stack holding them",
        "modelled": COMMON_MODELLED,
        "assumptions": ["lengths < 2^62, ints are 64-bit", "IsEqual / Defrag / Reveal totality over the value universe is proved with their own models (C05, C19, C20); here they are exercised for panics only"],
    },
    "C02": {
        "lean": ["Stackage.Props.C02"],
        "streams": [{"name": "render", "quick": 4000, "thorough": 80000}, {"name": "strunit", "quick": 1000, "thorough": 20000},
                    {"name": "rerender", "quick": 1500, "thorough": 30000}],
        "rule": "random expression trees (depth <= 3 quick / 5 thorough, width <= 4) of AND/OR/NOT/LIST/BASIC stacks and Conditions with independent "
                "per-node paren / fold / no-padding / lead-once / symbol (incl. multi-byte) / delimiter (incl. blank, multi-byte) / 0-2 encapsulation "
                "pairs; leaves: ASCII, multi-byte, embedded / leading / trailing blanks and tabs, NBSP, newline, empty, ints, bools, floats, stringers; "
                "String() compared byte for byte with the model and with the canonical grammar; a unit stream drives condenseWHSP / padValue / foldValue / "
                "encapValue directly; non-trivial = the tree has at least 2 elements or a nested node",
        "modelled": COMMON_MODELLED + ["strings as valid Unicode (List Char); the Go code works on bytes, and UTF-8 never contains bytes 9 or 32 inside a multi-byte sequence"],
        "assumptions": ["no presentation / validity closures on nested nodes (C14 covers closures)", "C02_verbatim needs blank-free encapsulation strings (blanks inside them are condensed like any others)"],
    },
    "C03": {
        "lean": ["Stackage.Props.C03"],
        "streams": [{"name": "capx", "quick": 3000, "thorough": 60000}, {"name": "sched", "quick": 1500, "thorough": 30000}],
        "rule": "sched (shared with C10): 2-3 goroutines x 1-3 mutators on mutex-enabled stacks with a capacity within 2 of the length, push policies included, "
                "every interleaving at lock-acquisition granularity: the final length must be the length of some sequential order (never beyond the capacity). "
                "capx also applies Marshal-into (one Push of the decoded value: capacity and configuration stay). histories hugging the capacity boundary: push batches that partly fit, Insert, Transfer-into, pop/remove/reset then grow again; "
                "k in 1..6 (and no capacity), every kind, LIFO/FIFO; Len/Cap/Avail/IsFull and return values compared after every step; "
                "non-trivial = at least 3 operations of at least 2 kinds",
        "modelled": COMMON_MODELLED,
        "assumptions": ["Marshal-into is covered through Push (C16 check exercises Marshal into initialised receivers)"],
    },
    "C09": {
        "lean": ["Stackage.Props.C09"],
        "streams": [{"name": "frozen", "quick": 4000, "thorough": 80000}, {"name": "nestedro", "quick": 1000, "thorough": 20000},
                    {"name": "xferro", "quick": 800, "thorough": 16000}, {"name": "condhist", "quick": 1500, "thorough": 30000}],
        "rule": "condhist (shared with C06): a read-only Condition of which a copy of the handle is kept while the variable is re-initialised (Init is the documented exception because it "
                "replaces the instance: the held one must stay exactly as it was). xferro: the read-only instance as the argument of another instance's Transfer (any form): false, and it stays as it was. every exported method of Stack and Condition, enumerated by reflection (a method whose parameter types the sweep does not know makes it refuse to run), "
                "invoked with arguments generated from its parameter types (ints incl. MinInt/MaxInt, strings, tri-state booleans, values incl. stacks / conditions / awkward "
                "values, errors, operators, closures, auxiliary maps) singly and in sequences of 1-4 on read-only instances of every kind and content (nested trees, capacity, "
                "mutex); the deep dump (VerifDump of the instance and of every nested Stack / Condition: content, every config field, closure / logger / aux identities) is "
                "compared before and after every call; Free must report an error; finally SetReadOnly(false) must give back exactly the initial state and Push must work again Extra step (testing, supports the theorems): SetReadOnly(true) called while another goroutine's Push sits inside its critical section on a mutex-enabled stack - once the call has returned the instance does not change any more (harness roprobe, deterministic)",
        "modelled": COMMON_MODELLED + ["method bodies inside the guards are arbitrary in the skeleton theorems; the guards themselves are tied to the source by the regenerated facts"],
        "assumptions": ["SetID(\"_random\") is not generated (non-deterministic); it is behind the same guard as SetID(fixed)"],
    },
    "C11": {
        "lean": ["Stackage.Props.C11"],
        "streams": [{"name": "queries", "quick": 4000, "thorough": 80000}],
        "rule": "every exported method not on the declared mutator list (enumerated by reflection) x random trees and configurations (mutex-enabled and read-only ones included): "
                "deep dump before / after / after a repetition, same answer when repeated, tampering with the Unmarshal slice; plus (both tiers) all queries from 16 goroutines in "
                "parallel under the race detector, each answer compared with the sequential one",
        "modelled": COMMON_MODELLED,
        "assumptions": ["user closures are pure", "race-freedom is a runtime fact: the race detector run is supporting evidence, the proof covers write-freedom of the query call graph (partial, DESIGN §8)"],
        "level_text": "proof (partial): Lean theorems over the guard skeleton + decide-checked facts regenerated from the source (no query reaches a write or a lock); data-race freedom "
                      "itself is not expressible in the model and is supported by a -race run of all queries from 16 goroutines",
    },
    "C17": {
        "lean": ["Stackage.Props.C17"],
        "streams": [{"name": "freepol", "quick": 600, "thorough": 12000}, {"name": "condhist", "quick": 1500, "thorough": 30000}, {"name": "initonly", "quick": 1500, "thorough": 30000}, {"name": "inert", "quick": 4000, "thorough": 80000}, {"name": "closures", "quick": 1500, "thorough": 30000},
                    {"name": "resets", "quick": 2000, "thorough": 40000}],
        "rule": "every exported method of Stack and Condition (reflection) x generated arguments x receiver states {zero value, freed}; the result must be the zero result of the "
                "Lean table and the receiver must stay uninitialised; sequences of 1-4 calls. resets: any configuration (kind, capacity, options, texts, policies) x a history "
                "that rebuilds the slice (Remove, Insert at the front, Pop, Reverse, Replace, Swap) x Reset: the configuration dump before and after must agree, no element "
                "(nil ones included) may remain, and the instance must stay usable under the same capacity and policies",
        "modelled": COMMON_MODELLED,
        "assumptions": ["the documented sentinels (ID \"unspecified\", Kind \"<invalid_stack>\", Addr \"0x0\", IsEmpty/IsPadded/IsZero true) are pinned as zero results",
                        "package-level functions and Auxiliary methods are exercised by the C08 / C18 streams"],
    },
    "C12": {
        "lean": ["Stackage.Props.C12"],
        "streams": [{"name": "condhist", "quick": 1500, "thorough": 30000}, {"name": "alias", "quick": 3000, "thorough": 60000}],
        "rule": "random trees (depth 1-2 quick, 1-4 thorough) in which every nested Stack and every Condition (also as a Condition's expression) is independently "
                "native / alias / alias with its own String / non-nil pointer to alias; the alias tree and its all-native twin are both built with the real code and "
                "observed: String, Unmarshal, IsNesting, Traverse over 9 paths, Condition.Len/IsNesting, no-nesting Push count, Transfer, IsEqual in both directions, "
                "ConvertStack/ConvertCondition per element; the two observations must coincide and equal the model's; about one nested Stack, nested Condition and "
                "Condition-held Stack in six carries an Unmarshaler (ids 1-3, id 3 returns an error too), never the receiver: Unmarshal is observed with its error class "
                "against the closure-aware walk (C12_unmarshalP); Condition-in-Condition chains to depth 3 (every form, Unmarshalers on the way, a Stack below): expanded, not handed through (F43)",
        "modelled": COMMON_MODELLED,
        "assumptions": ["IsEqual across forms (C12_isEqual*): user EqualityPolicy closures are form-blind (HookBlind: hook p (erase a) (erase b) = hook p a b), "
                        "or no EqualityPolicy is installed in the receiver's tree (C12_isEqual_noPolicy); no hypothesis on []any leaves; "
                        "Defrag across forms (C12_defrag) holds for every recursion budget and argument list without hypotheses"],
    },
    "C13": {
        "lean": ["Stackage.Props.C13", "Stackage.Props.C06"],
        "streams": [{"name": "nest", "quick": 3000, "thorough": 60000}, {"name": "condhist", "quick": 2000, "thorough": 40000}, {"name": "sealpol", "quick": 800, "thorough": 16000}],
        "rule": "push batches mixing stacks, aliases (with/without String), pointers to aliases, zero-valued instances, Conditions, nil and primitives, "
                "interleaved with switching no-nesting on/off, on every kind; content, CanNest and IsNesting compared after every step",
        "modelled": COMMON_MODELLED,
    },
    "C14": {
        "lean": ["Stackage.Props.C14"],
        "streams": [{"name": "pol", "quick": 3000, "thorough": 60000}, {"name": "closures", "quick": 3000, "thorough": 60000}],
        "rule": "push batches against five push policies (reject nil / strings / ints>5 / nothing / everything) with install/replace/remove, with and "
                "without capacity; content and Err() class compared after every step; stream closures: install / replace / remove sequences (by value, nil, and the "
                "argument-less variadic form) of validity, presentation, equality, marshal and unmarshal closures on Stacks of every kind (also case-folded, BASIC) and on "
                "Conditions; after every call Valid (error or not, and whose), String, IsEqual against an equal copy and against a different value, Unmarshal, Err; Marshal "
                "as an operation; a third of the Stack receivers hold a nested Stack / Condition / Condition-held Stack (any form) with an Unmarshaler of its own, a "
                "quarter of the Condition receivers a Stack expression with one, a fifth a Condition expression with one (holding a value, a Stack or a Condition with one again: "
                "C14_unmarshal_nested_*, _held_cond*: F43)",
        "modelled": COMMON_MODELLED,
        "assumptions": ["policies are pure functions of the offered value"],
    },
    "C15": {
        "lean": ["Stackage.Props.C15"],
        "streams": [{"name": "xfer", "quick": 3000, "thorough": 60000}],
        "rule": "|src| 0..5 x |dst| 0..5 x capacity none or 1..6 x destination forms {native, alias, alias with String, pointer, read-only, zero, foreign} x "
                "source LIFO/FIFO with nil elements, some destinations with push policy / no-nesting; result flag, destination and source content compared",
        "modelled": COMMON_MODELLED,
        "assumptions": ["source and destination are distinct objects (s.Transfer(s) does not terminate; outside the model)"],
    },
    "C05": {
        "lean": ["Stackage.Props.C05"],
        "streams": [{"name": "genfuncs", "quick": 600, "thorough": 12000}, {"name": "eqpair", "quick": 3000, "thorough": 60000}, {"name": "equnit", "quick": 1500, "thorough": 30000},
                    {"name": "eqseqs", "quick": 800, "thorough": 16000}, {"name": "eqmut", "quick": 1200, "thorough": 24000}],
        "rule": "eqmut: a tree and an equal copy are compared (twice, both ways), then the copy is changed IN PLACE below its top level through the handle of a nested "
                "Stack / Condition (Push, Replace, SetKeyword) and they are compared again: the verdict is about what they hold now. eqpair: random trees (every kind, capacity, case-folding, nested stacks / conditions in native, alias, alias-with-String and pointer form, "
                "operators incl. none and user-defined) whose leaves are drawn type-directed from ~70 Go types ([]int, [3]int, []string, []*int incl. nil "
                "elements, map[string]int, structs with exported / embedded / private fields, **int, typed nils, funcs, chans, NaN, declared scalar types, "
                "[]any, *any, uintptr ...); each tree is paired with an independently rebuilt copy (30%), with itself (same pointer) or with a copy carrying "
                "exactly one point mutation: 60% at a position drawn uniformly from ALL positions of ALL leaves (scalar, slice/array element, map key/value, "
                "element added/removed/swapped, slice capacity, private field), else a kind, capacity, keyword, operator, expression, sibling swap, element "
                "added/removed/replaced; a.IsEqual(b) and b.IsEqual(a) are observed as eq / ne / PANIC. equnit: the same leaf pairs straight into valuesEqual. "
                "non-trivial = not the self pair and at least one element in the tree",
        "modelled": COMMON_MODELLED + ["float / complex values carried as the text Go prints plus a NaN flag", "channels by (type, id) identity, funcs by type",
                                       "map iteration in list order (verdict is order-independent)"],
        "assumptions": ["operands are independently built (no shared backing arrays); Stack/Condition values inside slice, map or struct leaves are outside the universe",
                        "user Operator methods and EqualityPolicy closures are pure and do not panic"],
        "level_text": "Lean 4 theorems over the model of IsEqual/valuesEqual for all values of the reflect universe EV: C05_iff (IsEqual = nil iff same description, "
                      "on the property's domain), C05_refl, C05_symm, C05_point_mutation(_leaf) at any depth and position, C05_total (never panics, every value)",
        "explanation": "S line: inside the domain the verdict of the independent specification sameDesc; outside it the specification only demands 'no panic' and the line "
                       "repeats the model's verdict. K-C05-1 / K-C05-2 (found by this check in the first round of repairs) are fixed; their inputs are regression cases.",
    },
    "C04": {
        "lean": ["Stackage.Props.C04", "Stackage.Props.C04b"],
        "streams": [{"name": "roundtrip", "quick": 3000, "thorough": 60000}],
        "rule": "random trees (depth <= 3 quick / 5 thorough) of AND/OR/NOT/LIST/BASIC stacks (empty ones, folded labels, capacities included), Conditions whose "
                "expression is a primitive, a Stack or a Condition (Condition in Condition to depth 3, each inner one independently native / alias / alias with String / "
                "pointer, Stacks below them: F43), primitive and nil leaves (also leaves equal to label words); Unmarshal, then Marshal into a zero Stack "
                "through both calling conventions (Marshal(u...) and Marshal(u)); compared: the unmarshalled slice, the reconstructed tree, the fixpoint (Unmarshal again, "
                "labels case-insensitively) and IsEqual(original, reconstruction) where no capacity / case-folding is involved; non-trivial = tree with a nested node",
        "modelled": COMMON_MODELLED,
        "assumptions": ["no custom marshaler / unmarshaler closures (C14)", "IsEqual between original and reconstruction is checked on the implementation; its model-side theorem follows the C05 merge"],
    },
    "C16": {
        "lean": ["Stackage.Props.C16"],
        "streams": [{"name": "closures", "quick": 1500, "thorough": 30000}, {"name": "anytrees", "quick": 4000, "thorough": 80000}],
        "rule": "random []any trees (depth <= 3 quick / 5 thorough): labels in any case (incl. dotless-i / long-s spellings), junk and empty strings, numbers, nil, typed nil, "
                "operators (valid, ComparisonOperator(0), user-defined, empty text, nil), ready-made Stacks / aliases / Conditions, zero-valued instances, funcs, maps, "
                "CONDITION rows with 0-6 fields and wrong types, empty and nested single-element envelopes; receivers: zero Stack, initialised Stack, initialised Stack "
                "with capacity; compared: error or not, receiver initialised or not, the decoded tree, and that String / Unmarshal / IsEqual then return normally",
        "modelled": COMMON_MODELLED,
        "assumptions": ["totality of the Lean definitions carries 'never panics'; the stream ties it to the code"],
    },
    "C06": {
        "lean": ["Stackage.Props.C06"],
        "streams": [{"name": "condhist", "quick": 4000, "thorough": 80000}],
        "rule": "setter histories (<= 8 quick, <= 14 thorough) over accepted and rejected arguments: nil / empty / user-defined / out-of-range operators, "
                "nil / empty / stack (native, alias, pointer) / stringer / typed-nil / condition expressions, string / stringer / other keywords, "
                "x {no-nesting, no-padding, parenthetical, encapsulation, read-only, pre-set Err}, starting from Cond(...) or Init(); after every call "
                "Keyword, Operator, Expression, Valid (nil or not), Err (nil or not), CanNest, IsNesting, String; non-trivial = at least 2 calls",
        "modelled": COMMON_MODELLED,
        "assumptions": ["keyword arguments are strings, stringers, nil or other non-stringer values (a Stack/Condition passed as keyword is not generated)",
                        "every per-call theorem is for an arbitrary state, hence for the state reached by any history"],
    },
    "C18": {
        "lean": ["Stackage.Props.C18"],
        "streams": [{"name": "opts", "quick": 3000, "thorough": 60000}],
        "rule": "enumeration first: every sequence of {set, clear, toggle} x the 8 Stack options (then x the 4 options a Condition exposes) "
                "up to length 2 (quick) / 3 (thorough); then random histories (1..12 calls, thorough 1..40) on Stacks of every kind and on "
                "Conditions mixing tri-state setters (direct and through the deprecated aliases), SetFIFO, SetID/SetCategory, SetDelimiter "
                "(string/rune/nil/foreign), SetSymbol, SetEncap (strings, pairs, clashing pairs, 1- and 3-element and empty slices, no "
                "argument), SetAuxiliary, Set/UnsetLogLevel by name (any case, unknown names), LogLevel constant and raw int incl. 0, 65535, "
                "out-of-range and negative; after every call the full dump (VerifDump: option word, FIFO, symbol, delimiter, encapsulation, "
                "ID, category, level word, aux identity, content length), every public getter and String() (model: Stk.String / condString on the "
                "model's configuration; specification: the C02 grammar on the configuration the independent-switch state stands for) are compared; "
                "non-trivial = at least 2 calls. Extra step (testing, supports the theorems): 16 goroutines invert two or three options of a "
                "mutex-enabled stack; the final option word is the initial one XOR the options inverted an odd number of times",
        "modelled": COMMON_MODELLED + ["auxiliary maps by identity; id 0 = a map the library allocated itself",
                                       "strings.ToUpper on level names: ASCII plus U+0131/U+017F (the only code points whose upper case is ASCII)"],
        "assumptions": ["SetID(\"_random\"/\"_addr\") (generated IDs) is excluded: the generator never produces the two magic words",
                        "the model follows the repaired SetEncap (F21: an empty []string is ignored)"],
    },
    "C19": {
        "lean": ["Stackage.Props.C19"],
        "streams": [{"name": "genfuncs", "quick": 600, "thorough": 12000}, {"name": "nilpat", "quick": 3000, "thorough": 200000}],
        "rule": "stacks built from nil/non-nil patterns (values 1,2,3,.. in order so that order and identity are observable): every pattern of "
                "length 0..5 (quick) / 0..12 (thorough) x max in {default,1,2,3,50} x the four negative/forward index option settings, then random "
                "patterns of length 13..24 (quick) / ..40 (thorough) aimed at the boundaries (N = 2t+5, first gap around the limit, runs around the "
                "limit, alternating, dense, sparse, none), max also 0/-1/4/7/12/MaxInt/MinInt, nesting depth 0..2 inside Stacks (native, alias, alias "
                "with String, pointer; some read-only, some zero-valued) and Conditions; the real Defrag(max...) is called and Len, every element "
                "and Err() of the whole tree are compared with the model (M) and with the filter specification (S); a spec mismatch is a known "
                "finding iff the driver puts the input into a class of known_findings.json AND the implementation equals the model's prediction; "
                "non-trivial = the top-level stack has a nil and at least 3 elements",
        "modelled": COMMON_MODELLED + ["spat/tpat ([]int holding 0/1) as Bool lists; len(data) at iteration i as i-1 (one distinct key per iteration)",
                                       "the mutex taken by implode is ignored (C10)"],
        "assumptions": ["lengths < 2^62", "no Err recorded on the stacks beforehand (Defrag's Err clause is about its own report)",
                        "one Go stack object is not nested at two places"],
        "level_text": "Lean 4 theorems over the model of defrag/implode/verifyImplode for all stacks, scan limits and index options: the stated "
                      "property is refuted (C19_counterexample) and replaced by what holds (termination, no-nil untouched, sub-sequence, exact success "
                      "class, shape); single-stack level proved, the lifting to nested trees is checked by the correspondence run only; model tied to "
                      "/repo by regenerated guards and a differential correspondence check (exhaustive over all patterns of length <= 12 in thorough)",
        "explanation": "C19 as stated is false of the code (theorem C19_counterexample); the code is not repaired because TestDefrag_experimental_001 pins "
                       "its result. Proved instead: termination/no panic, no-nil stacks untouched, values never reordered or invented, the exact success "
                       "class DefragOK (iff), the shape of the result. Not proved: the lifting of the class to nested trees (checked by the correspondence run).",
    },
    "C20": {
        "lean": ["Stackage.Props.C20"],
        "streams": [{"name": "revealtrees", "quick": 4000, "thorough": 280000}],
        "rule": "thorough: exhaustive first - every tree of at most 5 nodes (leaf, nil, AND / NOT stack parenthetical or not with 0-3 children, Condition holding a leaf or a stack, parenthetical or not) under an AND receiver, 205257 trees - then random ones. random trees, receiver at depth 0 and stacks down to depth 5, every kind (AND/OR/NOT/LIST/BASIC), parenthetical flags on stacks and "
                "Conditions, chains of 1-4 single-element wrappers (mostly removable ones), Conditions holding stacks / Conditions / leaves (also as only "
                "element, also read-only / no-nesting / with an error, which makes SetExpression refuse), empty stacks, nil elements, zero-valued "
                "Stack / Condition elements, nil *Stack / *Condition elements, []any elements, alias forms a/as/p on stacks and Conditions, forward/negative index options, read-only "
                "nested stacks, mutex on none / some / all nodes; the real Reveal() runs under a 3 s watchdog (timeout = DEADLOCK) with recover; the "
                "resulting tree is read back through VerifDump (kinds, option bits, forms, leaves, keyword/operator) and compared with the heap "
                "model's tree together with the order of mutex acquisitions (VerifHook); distinct = distinct tree text; non-trivial = the receiver "
                "holds at least two nested Stack/Condition nodes",
        "explanation": "Observation blocks: L leaves, NF normal form, KP kept (parenthetical / NOT) nodes, D depth did not grow, R reachable(before, after), "
                       "T resulting tree, X lock order. The S line has the five specification blocks computed by Lean from the INPUT tree alone "
                       "(leaves/nf/kept before, D 1, R 1); impl-vs-spec compares those five blocks (the implementation's are computed by the harness "
                       "with Go ports of Spec/Unwrap.lean, used only to tell a specification failure from a model divergence); impl-vs-model compares "
                       "all seven blocks, and the model's five specification blocks are computed by Lean (leaves, nf, kept, depth, the verified "
                       "decision procedure `reachable`) on the model's tree, which the T block shows to be the implementation's tree.",
        "modelled": COMMON_MODELLED + ["object identity of nested stacks as an explicit heap (node id -> slots / condition)",
                                       "sync.Mutex as a non-re-entrant lock held for the duration of stack.reveal (lock/defer unlock)"],
        "assumptions": ["no Go stack object occurs at two places of the input tree (generators never alias; the theorems only need acyclicity)",
                        "elements are never non-nil pointers to the native Stack / Condition types (outside the value universe)",
                        "nil *Stack / *Condition elements (they satisfy Interface) are part of the random stream since repair F31 "
                        "(revealDescend skips them); VERIF_C20_NILPTR=0 leaves them out"],
    },
    "C10": {
        "lean": ["Stackage.Props.C10"],
        "open": "Stackage Stackage.Stk Stackage.Conc",
        "streams": [{"name": "sched", "quick": 3000, "thorough": 60000}],
        "level_text": C10_LEVEL,
        "level_note": "Trusted: Lean kernel; axioms propext, Classical.choice, Quot.sound; extractor (lock-placement facts read syntactically: position of "
                      "lock() relative to the first content read); the scheduler correspondence (bounded enumeration, supporting evidence); sync.Mutex as an "
                      "atomic acquire/release; a lock segment is atomic - memory-level races are outside the model (known finding K-C10-race)",
        "rule": "deterministic scheduler on the VerifHook lock points: 2-3 goroutines x 1-3 content mutators (quick: 3 x <=2) on mutex-enabled stacks "
                "of length 0..3, every kind, LIFO/FIFO, capacity none or within 2 of the length, occasional negative/forward index options and nil "
                "elements; per configuration ALL interleavings at lock-acquisition granularity when there are <= 60 (thorough: <= 2000), else a random "
                "sample of 40 (400); observed: every call's return values, final content, IsInit, whether content changed only between lock.held and "
                "lock.released, deadlock watchdog; compared with the Lean interleaving model on the same schedule and checked for membership in the set "
                "of sequential outcomes; distinct = distinct case text; non-trivial = at least two threads and a schedule that switches back to a thread it left",
        "modelled": COMMON_MODELLED + ["sync.Mutex as an atomic acquire/release without fairness", "the Go scheduler at hook (lock-segment) granularity",
                                       "a lock segment is atomic: word-level interleavings are not represented"],
        "assumptions": ["no push policy installed", "lengths < 2^62, ints are 64-bit",
                        "only the eight content mutators run concurrently (option setters, Defrag, Reveal, Transfer are not in the alphabet)"],
        "explanation": "S is the set of outcomes of all sequential orders consistent with program order; the implementation's observation must be a member",
    },
}


def _project_obs(text, keep):
    """keep only the observation token classes in `keep`:
    ret (return values), L, I (the Index block), F, B, E, c, a, u, N, G, R; src{..}/dst{..} blocks are projected recursively"""
    out, toks, k = [], text.split(" "), 0
    seenL = False
    while k < len(toks):
        t = toks[k]
        if t.startswith("src{") or t.startswith("dst{"):
            depth, j = 0, k
            while True:
                depth += toks[j].count("{") - toks[j].count("}")
                if depth <= 0:
                    break
                j += 1
            inner = " ".join(toks[k:j + 1])
            head, body = inner[:4], inner[4:-1]
            out.append(head + _project_obs(body, keep) + "}")
            k = j + 1
            continue
        if t == "[" or t.startswith("["):
            j = k
            while not toks[j].endswith("]"):
                j += 1
            if "I" in keep:
                out.append(" ".join(toks[k:j + 1]))
            k = j + 1
            continue
        m = re.fullmatch(r"L-?\d+", t)
        if m:
            seenL = True
            if "L" in keep:
                out.append(t)
        elif not seenL:
            if "ret" in keep:
                out.append(t)
        else:
            cls = t[:1]
            if cls in keep:
                out.append(t)
            elif cls not in "FBEcauNGR":
                out.append(t)
        k += 1
    return " ".join(out)


def _keep(*classes):
    ks = set(classes)
    def f(out):
        return " ; ".join(_project_obs(st, ks) for st in out.split(" ; "))
    return f


def _c03(out):
    """C03 looks at Len/Cap/Avail/IsFull. A Transfer-into step is projected to the invariants only (its result flag and
    all-or-nothing behaviour belong to C15): Cap constant, Avail == Cap-Len, IsFull == (Len==Cap), Len <= Cap."""
    steps = []
    for st in out.split(" ; "):
        pr = _project_obs(st, {"ret", "L", "I", "c", "a", "u"})   # content too: "Insert on a full stack fails without changing it"
        if "src{" in st:
            m = re.search(r"\} L(-?\d+) c(-?\d+) a(-?\d+) u([01])", pr)
            if m:
                L, c, a, u = int(m.group(1)), int(m.group(2)), int(m.group(3)), m.group(4)
                okc = (c == -1 and a == -1 and u == "0") or (c > 0 and L <= c and a == c - L and (u == "1") == (L == c))
                pr = "xferto c%d inv=%s" % (c, okc)
        steps.append(pr)
    return " ; ".join(steps)


def _c05(out):
    """C05 names only: equal, not equal, panic"""
    return re.sub(r"ne:[A-Za-z0-9?]+", "ne", out)


def _c04(out):
    # the model does not compute IsEqual yet: Q is compared on the implementation against the specification only
    return re.sub(r" Qskip", " Qok", out) if "Qskip" in out else out


def _c20_spec_blocks(s):
    return " ; ".join(b for b in s.split(" ; ") if not (b == "X" or b == "T" or b.startswith("T ") or b.startswith("X ")))


class _C20Spec(str):
    """The S line of C20: it has no T (tree) and X (lock order) block, because the specification is computed from the input
    alone. It equals an observation iff the observation's specification blocks (L, NF, KP, D, R) equal it. (Python consults
    the str subclass first when a plain str is compared with it.)"""
    def __eq__(self, other):
        return _c20_spec_blocks(str(other)) == str.__str__(self)

    def __ne__(self, other):
        return not self.__eq__(other)

    __hash__ = str.__hash__


def _c20(out):
    """impl-vs-spec: the five specification blocks; impl-vs-model: everything (tree and lock order included)."""
    if out.startswith("L ") and " ; T " not in out and not out.endswith(" ; T"):
        return _C20Spec(out)
    return out


PROJ = {
    "C05": _c05,
    "C04": _c04,
    "C20": _c20,
    "C01": _keep("ret", "L", "I", "F", "B", "E"),
    "C08": _keep("ret", "L", "I", "F", "B", "E", "c", "a", "u"),
    "C03": _c03,
    "C13": _keep("L", "I", "N", "G"),
    "C14": _keep("L", "I", "R"),
    "C15": _keep("ret", "L", "I"),
    "C18": lambda out: out,   # everything the opts stream prints is a C18 observable
}


def _c13_cond(out):
    # the Condition part of C13: expression, CanNest, IsNesting
    return " ; ".join(" ".join(t for t in st.split(" ") if t[:1] in "XNG") for st in out.split(" ; "))


def projection(pid, stream):
    if stream == "genfuncs":   # translator self-check: the value itself
        return lambda s: s
    if pid == "C03" and stream == "sched":
        # "no sequence of calls ever makes Len exceed k", simultaneous calls included: the final length (and content) of the shared stack
        return lambda s: " ".join(st for st in s.split(" ; ") if st.startswith("F "))
    if pid == "C07" and stream == "freepol":
        # Traverse(i) is Index(i) also when asked from inside the stack's own PushPolicy (the lock is held then)
        return lambda s: ("t" + s.split(" ")[0].split("t")[-1]) if s.startswith("free=z") else "-"
    if pid == "C08" and stream == "paths":
        # Traverse with any int as index, through whatever the tree holds: the value and the flag, as they are
        return lambda s: s
    if pid == "C08" and stream == "revealtrees":
        # Reveal returns normally (forward / negative index options, nested shapes of every kind included); what it does is C20's business
        return lambda s: "PANIC" if ("PANIC" in s or "TIMEOUT" in s) else "returned"
    if pid == "C07" and stream == "condhist":
        # Traverse through a Condition into the Stack it holds, after every step of a setter history (accepted and refused assignments)
        return lambda s: " ; ".join(" ".join(t for t in st.split(" ") if t[:1] == "T") for st in s.split(" ; "))
    if pid == "C17" and stream == "condhist":
        # Free: the handle it is called on becomes zero (unless read-only) and answers as a zero Condition; a copy of the handle kept
        # elsewhere goes on answering (no panic) with what the instance held
        def _c17_cond(s):
            out = []
            for st in s.split(" ; "):
                z = "zero" if " K- O- XN V0 R0 N0 G0 S- TN:0" in " " + st.split(" H[")[0] else "live"
                out.append(z + (" " + st[st.index("H["):] if "H[" in st else ""))
            return " ; ".join(out)
        return _c17_cond
    if pid == "C09" and stream == "condhist":
        # a read-only Condition that has a second holder: Init / Cond through the variable replace the variable's instance, the held one stays
        return lambda s: " ; ".join(st[st.index("H["):] if "H[" in st else "-" for st in s.split(" ; "))
    if pid == "C13" and stream == "condhist":
        return _c13_cond
    if pid == "C12" and stream == "condhist":
        # alias / pointer forms as a Condition's expression behave like the native one: what is stored, CanNest, IsNesting
        return _c13_cond
    if pid == "C08" and stream == "equnit":
        # any Go value as comparand: the call returns normally (the verdict itself is C05's business)
        return lambda s: "PANIC" if "PANIC" in s else "returned"
    if pid == "C16" and stream == "closures":
        # Marshal into an initialised receiver with closures installed / removed: the verdict of each marshal step and the length
        def _c16_cl(s):
            out = []
            for st in s.split(" ; "):
                t = st.split(" ")
                out.append(t[0] + " " + " ".join(x for x in t if x[:1] == "L" and x[1:].isdigit()))
            return " ; ".join(out)
        return _c16_cl
    if pid == "C14" and stream == "closures":
        return lambda s: s
    if pid == "C09" and stream == "xferro":
        # the destination dump and the verdict of the Transfer step
        def _xferro(s):
            st = s.split(" ; ")
            # (with a read-only SOURCE - the other half of the cases - the source's own observation after the call as well)
            return st[1] if len(st) > 1 else s
        return _xferro
    if pid == "C17" and stream == "resets":
        # Reset clause: the configuration dumps (before the history, after each Reset: kind, capacity, options, texts,
        # policies present) with the list observed right after the Reset, and the last step (the instance is usable)
        def _resets(s):
            st = s.split(" ; ")
            return " ; ".join(x for i, x in enumerate(st) if x.startswith("D{") or i == len(st) - 1)
        return _resets
    if pid == "C17" and stream == "closures":
        # only the final Free step matters to C17: "Free makes the handle zero unless the instance is read-only"
        return lambda s: " ; ".join(st for st in s.split(" ; ") if st.startswith("free "))
    return PROJ.get(pid, lambda s: s)


def extra_checks(run):
    """property-specific steps beyond the case streams: returns [(name, detail, replay_text)] for violations"""
    import subprocess, os
    out = []
    if run.pid == "C11" and run.harness:
        root = os.path.dirname(os.path.dirname(os.path.abspath(__file__)))
        exe = os.path.join(run.work, "harness-race")
        env = dict(os.environ, GOFLAGS="-mod=mod", GOPROXY="off", GOSUMDB="off", GOTOOLCHAIN="local")
        b = subprocess.run(["go", "build", "-race", "-modfile", os.path.join(run.work, "go.mod"), "-tags", "verif", "-o", exe, "."],
                           cwd=os.path.join(root, "harness"), env=env, stdout=subprocess.PIPE, stderr=subprocess.STDOUT, text=True)
        if b.returncode != 0:
            run.notes.append("race build failed: " + b.stdout[-200:])
            return out
        # 16 separate processes (fresh package state each: a first-use effect such as a lazily filled package-level
        # table can only race on its first uses), each hitting its structures from 16 goroutines
        n = "40" if run.tier == "quick" else "600"
        procs = [subprocess.Popen([exe, "parq", "-seed", str(run.seed * 100 + k), "-n", n], stdout=subprocess.PIPE, stderr=subprocess.PIPE, text=True)
                 for k in range(16)]
        summary = []
        for k, pr in enumerate(procs):
            try:
                # (a quick run takes seconds; a process that sits there has its goroutines waiting for a lock nobody gives back)
                so, se = pr.communicate(timeout=300 if run.tier == "quick" else 3000)
            except subprocess.TimeoutExpired:
                pr.kill()
                so, se = pr.communicate()
                se += "\nTIMEOUT"
            summary.append((so.strip().split("\n") or [""])[-1])
            if "DATA RACE" in se or "concurrent map" in se or pr.returncode != 0:
                out.append(("race", "data race or wrong answer while running queries from 16 goroutines (process %d, seed %d)" % (k, run.seed * 100 + k),
                            so[-3000:] + "\n" + se[-6000:]))
                for q in procs[k + 1:]:
                    q.kill()
                break
        run.notes.append("parallel queries (16 processes): " + " | ".join(summary[:3]) + " ...")
    return out


def _extra_checks_c09(run):
    """once SetReadOnly(true) has returned the instance does not change - also when it was called while another goroutine's
    Push sat inside its critical section (mutex-enabled stack; deterministic: the PushPolicy waits on a channel)"""
    import subprocess
    if not run.harness:
        return []
    cmd = [run.harness, "roprobe", "-rounds", "20" if run.tier == "quick" else "200"]
    try:
        p = subprocess.run(cmd, stdout=subprocess.PIPE, stderr=subprocess.PIPE, text=True, timeout=600)
        out, rc, err = p.stdout, p.returncode, p.stderr
    except subprocess.TimeoutExpired:
        return [("roprobe-timeout", "read-only switch during a running Push: the probe did not finish within 600 s", "cmd: %s\n" % " ".join(cmd))]
    fails = [l for l in out.split("\n") if l.startswith("ROPROBE-FAIL")]
    done = [l for l in out.split("\n") if l.startswith("ROPROBE-DONE")]
    run.notes.append("read-only switch during a running Push: %s" % (done[0] if done else "no summary (exit %s)" % rc))
    if fails or not done:
        return [("roprobe", "SetReadOnly(true) while a Push holds the mutex: %s" % (fails[0] if fails else "process exited with %s: %s" % (rc, err.strip()[-300:])),
                 "cmd: %s\n%s" % (" ".join(cmd), "\n".join(fails[:40])))]
    return []


def _extra_checks_c18(run):
    """"inverted by passing nothing" - every time: on a mutex-enabled stack the inversions of 16 goroutines all count
    (an option inverted an even number of times stands where it stood, whatever order the calls took effect in)"""
    import subprocess, os
    if not run.harness:
        return []
    rounds, ops = ("120", "300") if run.tier == "quick" else ("1500", "500")
    cmd = [run.harness, "stress", "-toggles", "-seed", str(run.seed), "-rounds", rounds, "-ops", ops]
    try:
        p = subprocess.run(cmd, stdout=subprocess.PIPE, stderr=subprocess.PIPE, text=True, timeout=900)
        out, rc, err = p.stdout, p.returncode, p.stderr
    except subprocess.TimeoutExpired as e:
        return [("toggles-timeout", "option inversions from 16 goroutines did not finish within 900 s", "cmd: %s\n" % " ".join(cmd))]
    fails = [l for l in out.split("\n") if l.startswith("STRESS-FAIL")]
    done = [l for l in out.split("\n") if l.startswith("STRESS-DONE")]
    run.notes.append("concurrent inversions: %s" % (done[0] if done else "no summary (exit %s)" % rc))
    if fails or not done:
        return [("toggles", "options inverted from 16 goroutines on a mutex-enabled stack: %s" % (fails[0] if fails else "process exited with %s: %s" % (rc, err.strip()[-300:])),
                 "cmd: %s\n%s" % (" ".join(cmd), "\n".join(fails[:40])))]
    return []


def shrink_keep_tail(line):
    """number of trailing operations of a case that belong to a fixed epilogue (not to be removed when shrinking)"""
    if line.startswith("frozen "):
        ops = line.rsplit(" | ", 1)[-1].split(" ; ")
        if len(ops) >= 2 and ops[-1].startswith("Push ") and ops[-2].startswith("SetReadOnly "):
            return 2
        if ops and ops[-1].startswith("SetReadOnly "):
            return 1
    return 0


def in_scope(pid, stream, tags):
    if pid == "C01":
        return "oos" not in tags.split()
    return True


def nontrivial(pid, payload):
    if pid == "C20":
        toks = payload.split(" ")
        return sum(1 for t in toks if t in ("K", "C")) >= 3
    ops = payload.rsplit(" | ", 1)[-1].split(" ; ")
    kinds = {o.split(" ")[0] for o in ops if o}
    if pid == "C10":   # at least two threads, and the schedule really interleaves them (not one thread after the other)
        sec = payload.split(" | ")
        if len(sec) < 3:
            return False
        turns = sec[2].split()
        blocks = [t for k, t in enumerate(turns) if k == 0 or turns[k - 1] != t]
        return len(sec[1].split(" / ")) >= 2 and len(blocks) > len(set(turns))
    if pid == "C05":
        return not payload.endswith("| self") and " [ ]" not in payload.split(" | ")[0][:12]
    if pid == "C15":
        return " [ ]" not in payload.split(" | ")[0]     # non-empty source
    if pid == "C12":
        return any(f in payload for f in (" a ", " as ", " p "))
    if pid == "C07":
        return any(len(o.split(" ")) >= 3 for o in ops)
    if pid == "C02":
        return payload.count(" ") >= 6
    if pid == "C18":
        return " | " in payload and len(ops) >= 2
    if pid in ("C09", "C11", "C17"):
        return True
    if pid in ("C04", "C16"):
        return payload.count("[") >= 2
    if pid == "C19":
        top = _c19_top(payload)
        return "N" in top and len(top) >= 3
    if pid in ("C13", "C14", "C06"):
        return len(ops) >= 2
    return len(ops) >= 3 and len(kinds) >= 2


def _c19_top(payload):
    """tokens of the top-level elements of a nilpat case (nested literals collapsed to one token)"""
    toks = payload.split(" | ")[0].split()
    out, depth = [], 0
    for t in toks[4:]:
        if t == "[":
            depth += 1
        elif t == "]":
            depth -= 1
            if depth < 0:
                break
        elif depth == 0 and t in ("K", "C", "Z"):
            out.append(t + "*")
        elif depth == 0 and t not in ("n", "a", "as", "p", "-", "c1", "6b") and "=" not in t:
            out.append(t)
    return out


def _c19_distribution(cases):
    d = {"length": {}, "max": {}, "index_options": {}, "nesting": {}, "nil_share": {}}
    def inc(k, v):
        d[k][v] = d[k].get(v, 0) + 1
    for c in cases:
        payload = c.split(" | ", 1)[1]
        top = _c19_top(payload)
        n = len(top)
        inc("length", "0-5" if n <= 5 else "6-12" if n <= 12 else "13-24" if n <= 24 else "25+")
        inc("max", payload.rsplit(" ", 1)[-1])
        cfg = payload.split()[2]
        o = 0
        for kv in cfg.split(","):
            if kv.startswith("o="):
                o = int(kv[2:])
        inc("index_options", {0: "none", 16: "neg", 32: "fwd", 48: "neg+fwd"}[o & 48])
        lit = payload.split(" | ")[0]
        inc("nesting", "cond+stack" if " C " in lit and lit.count(" K ") > lit.count(" C ") else "cond" if " C " in lit else "stack" if " K " in lit[2:] else "flat")
        nn = top.count("N")
        inc("nil_share", "none" if nn == 0 else "<1/3" if 3 * nn < n else "<2/3" if 3 * nn < 2 * n else ">=2/3")
    return d


def _c20_distribution(cases):
    d = {"nodes": {}, "depth": {}, "features": {}}
    def bump(k, key):
        d[k][key] = d[k].get(key, 0) + 1
    for c in cases:
        toks = c.split(" | ", 1)[-1].split(" ")
        n = sum(1 for t in toks if t in ("K", "C"))
        b = min(n // 5 * 5, 40)
        bump("nodes", "%d-%d" % (b, b + 4))
        depth, cur = 1, 1          # the receiver's own level (its elements are listed without brackets)
        for t in toks:
            if t == "[":
                cur += 1
                depth = max(depth, cur)
            elif t == "]":
                cur -= 1
        bump("depth", str(depth))
        text = " ".join(toks)
        for name, pat in (("mutex", r"mtx=1"), ("alias stack", r"K (a|as|p) "), ("alias condition", r"C (a|as|p) "), ("NOT", r"K \S+ k=3"),
                          ("condition holding a stack", r"C \S+ \S+ \S+ \S+ K "), ("stack whose only element is a condition", r"\[ C [^\[\]]* \]"),
                          ("empty stack", r"\[ \]"), ("nil element", r" N "), ("zero Stack/Condition", r" [ZY] "),
                          ("single-element chain >= 2", r"\[ K \S+ \S+ \[ K \S+ \S+ \[ K "), ("forward index option", r"o=(32|33|48|49)")):
            if re.search(pat, text):
                bump("features", name)
        for t in toks:
            m = re.fullmatch(r"(?:\S*,)?o=(\d+)(?:,\S*)?", t)
            if m and int(m.group(1)) & 1:
                bump("features", "parenthetical")
                break
    return d


def distribution(pid, cases):
    nf = sum(1 for c in cases if c.startswith("genfuncs "))
    cases = [c for c in cases if not c.startswith("genfuncs ")]   # translator self-check cases are counted apart
    d = _distribution(pid, cases)
    if nf:
        d["translator_selfcheck_cases"] = nf
    return d


def _distribution(pid, cases):
    if pid == "C19":
        return _c19_distribution(cases)
    if pid == "C20":
        return _c20_distribution(cases)
    d = {"ops": {}, "sizes": {}}
    for c in cases:
        if pid == "C10" and c.count(" | ") >= 3:
            progs = c.split(" | ")[2].split(" / ")
            k = "%d threads" % len(progs)
            d["sizes"][k] = d["sizes"].get(k, 0) + 1
            for pr in progs:
                for o in pr.split(" ; "):
                    d["ops"][o.split(" ")[0]] = d["ops"].get(o.split(" ")[0], 0) + 1
            continue
        ops = c.rsplit(" | ", 1)[-1].split(" ; ")
        b = min(len(ops) // 10 * 10, 100)
        d["sizes"]["%d-%d ops" % (b, b + 9)] = d["sizes"].get("%d-%d ops" % (b, b + 9), 0) + 1
        for o in ops:
            k = o.split(" ")[0]
            d["ops"][k] = d["ops"].get(k, 0) + 1
    return d
NOT_CLAIMED = {}


# ---- relational specifications: the S line is a set of admissible observations separated by " || " ----------------------------------
def resolve(pid, stream, impl, spec):
    """pick from a set-valued specification line the member the implementation produced (or, for the report, the closest one)"""
    if " || " not in spec and pid != "C10":
        return spec
    alts = spec.split(" || ")
    if impl in alts:
        return impl
    def score(a):
        ta, ti = a.split(" ; "), (impl or "").split(" ; ")
        return sum(1 for x, y in zip(ta, ti) if x == y)
    return max(alts, key=score)


_extra_checks_c11 = extra_checks


def extra_checks(run):
    """property-specific extra steps; each returns a list of (name, detail, replay text) violations"""
    if run.pid == "C10":
        import c10_extra
        return c10_extra.extra_checks(run)
    if run.pid == "C18":
        return _extra_checks_c18(run)
    if run.pid == "C09":
        return _extra_checks_c09(run)
    return _extra_checks_c11(run)
