"""Per-property configuration for bin/check."""
import re

COMMON_MODELLED = [
    "Go slices modelled as lists (DESIGN §4.2)", "Go int as Int with explicit wrap64 at arithmetic sites",
    "reflect outcomes as data (DESIGN §4.4)", "user closures as pure functions",
]

PROPS = {
    "C01": {
        "lean": ["Stackage.Props.C01"],
        "streams": [{"name": "hist", "quick": 3000, "thorough": 60000}],
        "rule": "random histories of the 8 content mutators (+ FIFO / index-option switches) with boundary-biased indices on stacks of "
                "every kind, LIFO/FIFO, capacity none or 1..6; full observation (Len, Index over [-Len-1, Len+1], Front, Back, IsEmpty, return "
                "values) after every step; distinct = distinct case text; non-trivial = at least 3 operations of at least 2 different kinds",
        "modelled": COMMON_MODELLED,
        "assumptions": ["no push policy installed (C14 covers policies)", "lengths < 2^62, ints are 64-bit"],
    },
    "C08": {
        "lean": ["Stackage.Props.C08"],
        "streams": [{"name": "histx", "quick": 3000, "thorough": 60000}],
        "rule": "histories of the content mutators whose int arguments are drawn from {MinInt, MinInt+1, -Len-1..Len+1, MaxInt} on stacks of "
                "length 0..4, all four index-option combinations, every kind; after each call Len/Index*/Front/Back/Cap/Avail are re-read; "
                "non-trivial = at least 3 operations of at least 2 kinds",
        "modelled": COMMON_MODELLED,
        "assumptions": ["lengths < 2^62, ints are 64-bit"],
    },
    "C03": {
        "lean": ["Stackage.Props.C03"],
        "streams": [{"name": "capx", "quick": 3000, "thorough": 60000}],
        "rule": "histories hugging the capacity boundary: push batches that partly fit, Insert, Transfer-into, pop/remove/reset then grow again; "
                "k in 1..6 (and no capacity), every kind, LIFO/FIFO; Len/Cap/Avail/IsFull and return values compared after every step; "
                "non-trivial = at least 3 operations of at least 2 kinds",
        "modelled": COMMON_MODELLED,
        "assumptions": ["Marshal-into is covered through Push (C16 check exercises Marshal into initialised receivers)"],
    },
    "C13": {
        "lean": ["Stackage.Props.C13"],
        "streams": [{"name": "nest", "quick": 3000, "thorough": 60000}],
        "rule": "push batches mixing stacks, aliases (with/without String), pointers to aliases, zero-valued instances, Conditions, nil and primitives, "
                "interleaved with switching no-nesting on/off, on every kind; content, CanNest and IsNesting compared after every step",
        "modelled": COMMON_MODELLED,
    },
    "C14": {
        "lean": ["Stackage.Props.C14"],
        "streams": [{"name": "pol", "quick": 3000, "thorough": 60000}],
        "rule": "push batches against five push policies (reject nil / strings / ints>5 / nothing / everything) with install/replace/remove, with and "
                "without capacity; content and Err() class compared after every step",
        "modelled": COMMON_MODELLED,
        "assumptions": ["policies are pure functions of the offered value"],
    },
    "C15": {
        "lean": ["Stackage.Props.C15"],
        "streams": [{"name": "xfer", "quick": 3000, "thorough": 60000}],
        "rule": "|src| 0..5 x |dst| 0..5 x capacity none or 1..6 x destination forms {native, alias, alias with String, pointer, read-only, zero, foreign} x "
                "source LIFO/FIFO with nil elements, some destinations with push policy / no-nesting; result flag, destination and source content compared",
        "modelled": COMMON_MODELLED,
        "assumptions": ["source and destination are distinct objects (s.Transfer(s) does not terminate; outside the model)"],
    },
    "C19": {
        "lean": ["Stackage.Props.C19"],
        "streams": [{"name": "nilpat", "quick": 3000, "thorough": 200000}],
        "rule": "stacks built from nil/non-nil patterns (values 1,2,3,.. in order so that order and identity are observable): every pattern of "
                "length 0..5 (quick) / 0..12 (thorough) x max in {default,1,2,3,50} x the four negative/forward index option settings, then random "
                "patterns of length 13..24 (quick) / ..40 (thorough) aimed at the boundaries (N = 2t+5, first gap around the limit, runs around the "
                "limit, alternating, dense, sparse, none), max also 0/-1/4/7/12/MaxInt/MinInt, nesting depth 0..2 inside Stacks (native, alias, alias "
                "with String, pointer; some read-only, some zero-valued) and Conditions; the real Defrag(max...) is called and Len, every element "
                "and Err() of the whole tree are compared with the model (M) and with the filter specification (S); a spec mismatch is a known "
                "finding iff the driver puts the input into a class of known_findings.json AND the implementation equals the model's prediction; "
                "non-trivial = the top-level stack has a nil and at least 3 elements",
        "modelled": COMMON_MODELLED + ["spat/tpat ([]int holding 0/1) as Bool lists; len(data) at iteration i as i-1 (one distinct key per iteration)",
                                       "the mutex taken by implode is ignored (C10)"],
        "assumptions": ["lengths < 2^62", "no Err recorded on the stacks beforehand (Defrag's Err clause is about its own report)",
                        "one Go stack object is not nested at two places"],
        "level_text": "Lean 4 theorems over the model of defrag/implode/verifyImplode for all stacks, scan limits and index options: the stated "
                      "property is refuted (C19_counterexample) and replaced by what holds (termination, no-nil untouched, sub-sequence, exact success "
                      "class, shape); single-stack level proved, the lifting to nested trees is checked by the correspondence run only; model tied to "
                      "/repo by regenerated guards and a differential correspondence check (exhaustive over all patterns of length <= 12 in thorough)",
        "explanation": "C19 as stated is false of the code (theorem C19_counterexample); the code is not repaired because TestDefrag_experimental_001 pins "
                       "its result. Proved instead: termination/no panic, no-nil stacks untouched, values never reordered or invented, the exact success "
                       "class DefragOK (iff), the shape of the result. Not proved: the lifting of the class to nested trees (checked by the correspondence run).",
    },
}


def _project_obs(text, keep):
    """keep only the observation token classes in `keep`:
    ret (return values), L, I (the Index block), F, B, E, c, a, u, N, G, R; src{..}/dst{..} blocks are projected recursively"""
    out, toks, k = [], text.split(" "), 0
    seenL = False
    while k < len(toks):
        t = toks[k]
        if t.startswith("src{") or t.startswith("dst{"):
            depth, j = 0, k
            while True:
                depth += toks[j].count("{") - toks[j].count("}")
                if depth <= 0:
                    break
                j += 1
            inner = " ".join(toks[k:j + 1])
            head, body = inner[:4], inner[4:-1]
            out.append(head + _project_obs(body, keep) + "}")
            k = j + 1
            continue
        if t == "[" or t.startswith("["):
            j = k
            while not toks[j].endswith("]"):
                j += 1
            if "I" in keep:
                out.append(" ".join(toks[k:j + 1]))
            k = j + 1
            continue
        m = re.fullmatch(r"L-?\d+", t)
        if m:
            seenL = True
            if "L" in keep:
                out.append(t)
        elif not seenL:
            if "ret" in keep:
                out.append(t)
        else:
            cls = t[:1]
            if cls in keep:
                out.append(t)
            elif cls not in "FBEcauNGR":
                out.append(t)
        k += 1
    return " ".join(out)


def _keep(*classes):
    ks = set(classes)
    def f(out):
        return " ; ".join(_project_obs(st, ks) for st in out.split(" ; "))
    return f


def _c03(out):
    """C03 looks at Len/Cap/Avail/IsFull. A Transfer-into step is projected to the invariants only (its result flag and
    all-or-nothing behaviour belong to C15): Cap constant, Avail == Cap-Len, IsFull == (Len==Cap), Len <= Cap."""
    steps = []
    for st in out.split(" ; "):
        pr = _project_obs(st, {"ret", "L", "c", "a", "u"})
        if "src{" in st:
            m = re.search(r"\} L(-?\d+) c(-?\d+) a(-?\d+) u([01])", pr)
            if m:
                L, c, a, u = int(m.group(1)), int(m.group(2)), int(m.group(3)), m.group(4)
                okc = (c == -1 and a == -1 and u == "0") or (c > 0 and L <= c and a == c - L and (u == "1") == (L == c))
                pr = "xferto c%d inv=%s" % (c, okc)
        steps.append(pr)
    return " ; ".join(steps)


PROJ = {
    "C01": _keep("ret", "L", "I", "F", "B", "E"),
    "C08": _keep("ret", "L", "I", "F", "B", "E", "c", "a", "u"),
    "C03": _c03,
    "C13": _keep("L", "I", "N", "G"),
    "C14": _keep("L", "I", "R"),
    "C15": _keep("ret", "L", "I"),
}


def projection(pid, stream):
    return PROJ.get(pid, lambda s: s)


def in_scope(pid, stream, tags):
    if pid == "C01":
        return "oos" not in tags.split()
    return True


def nontrivial(pid, payload):
    ops = payload.rsplit(" | ", 1)[-1].split(" ; ")
    kinds = {o.split(" ")[0] for o in ops if o}
    if pid == "C15":
        return " [ ]" not in payload.split(" | ")[0]     # non-empty source
    if pid == "C19":
        top = _c19_top(payload)
        return "N" in top and len(top) >= 3
    if pid in ("C13", "C14"):
        return len(ops) >= 2
    return len(ops) >= 3 and len(kinds) >= 2


def _c19_top(payload):
    """tokens of the top-level elements of a nilpat case (nested literals collapsed to one token)"""
    toks = payload.split(" | ")[0].split()
    out, depth = [], 0
    for t in toks[4:]:
        if t == "[":
            depth += 1
        elif t == "]":
            depth -= 1
            if depth < 0:
                break
        elif depth == 0 and t in ("K", "C", "Z"):
            out.append(t + "*")
        elif depth == 0 and t not in ("n", "a", "as", "p", "-", "c1", "6b") and "=" not in t:
            out.append(t)
    return out


def _c19_distribution(cases):
    d = {"length": {}, "max": {}, "index_options": {}, "nesting": {}, "nil_share": {}}
    def inc(k, v):
        d[k][v] = d[k].get(v, 0) + 1
    for c in cases:
        payload = c.split(" | ", 1)[1]
        top = _c19_top(payload)
        n = len(top)
        inc("length", "0-5" if n <= 5 else "6-12" if n <= 12 else "13-24" if n <= 24 else "25+")
        inc("max", payload.rsplit(" ", 1)[-1])
        cfg = payload.split()[2]
        o = 0
        for kv in cfg.split(","):
            if kv.startswith("o="):
                o = int(kv[2:])
        inc("index_options", {0: "none", 16: "neg", 32: "fwd", 48: "neg+fwd"}[o & 48])
        lit = payload.split(" | ")[0]
        inc("nesting", "cond+stack" if " C " in lit and lit.count(" K ") > lit.count(" C ") else "cond" if " C " in lit else "stack" if " K " in lit[2:] else "flat")
        nn = top.count("N")
        inc("nil_share", "none" if nn == 0 else "<1/3" if 3 * nn < n else "<2/3" if 3 * nn < 2 * n else ">=2/3")
    return d


def distribution(pid, cases):
    if pid == "C19":
        return _c19_distribution(cases)
    d = {"ops": {}, "sizes": {}}
    for c in cases:
        ops = c.rsplit(" | ", 1)[-1].split(" ; ")
        b = min(len(ops) // 10 * 10, 100)
        d["sizes"]["%d-%d ops" % (b, b + 9)] = d["sizes"].get("%d-%d ops" % (b, b + 9), 0) + 1
        for o in ops:
            k = o.split(" ")[0]
            d["ops"][k] = d["ops"].get(k, 0) + 1
    return d
NOT_CLAIMED = {}
