"""Per-property configuration for bin/check."""
import re

COMMON_MODELLED = [
    "Go slices modelled as lists (DESIGN §4.2)", "Go int as Int with explicit wrap64 at arithmetic sites",
    "reflect outcomes as data (DESIGN §4.4)", "user closures as pure functions",
]

PROPS = {
    "C01": {
        "lean": ["Stackage.Props.C01"],
        "streams": [{"name": "hist", "quick": 3000, "thorough": 60000}],
        "rule": "random histories of the 8 content mutators (+ FIFO / index-option switches) with boundary-biased indices on stacks of "
                "every kind, LIFO/FIFO, capacity none or 1..6; full observation (Len, Index over [-Len-1, Len+1], Front, Back, IsEmpty, return "
                "values) after every step; distinct = distinct case text; non-trivial = at least 3 operations of at least 2 different kinds",
        "modelled": COMMON_MODELLED,
        "assumptions": ["no push policy installed (C14 covers policies)", "lengths < 2^62, ints are 64-bit"],
    },
    "C08": {
        "lean": ["Stackage.Props.C08"],
        "streams": [{"name": "histx", "quick": 3000, "thorough": 60000}],
        "rule": "histories of the content mutators whose int arguments are drawn from {MinInt, MinInt+1, -Len-1..Len+1, MaxInt} on stacks of "
                "length 0..4, all four index-option combinations, every kind; after each call Len/Index*/Front/Back/Cap/Avail are re-read; "
                "non-trivial = at least 3 operations of at least 2 kinds",
        "modelled": COMMON_MODELLED,
        "assumptions": ["lengths < 2^62, ints are 64-bit"],
    },
}


def _tokens_drop(prefixes):
    def f(out):
        steps = []
        for st in out.split(" ; "):
            steps.append(" ".join(t for t in st.split(" ") if not (t[:1] in prefixes and re.fullmatch(r"[cau]-?\d+", t))))
        return " ; ".join(steps)
    return f


def projection(pid, stream):
    if pid == "C01" and stream == "hist":
        return _tokens_drop("cau")        # capacity getters belong to C03
    return lambda s: s


def in_scope(pid, stream, tags):
    if pid == "C01":
        return "oos" not in tags.split()
    return True


def nontrivial(pid, payload):
    ops = payload.rsplit(" | ", 1)[-1].split(" ; ")
    kinds = {o.split(" ")[0] for o in ops if o}
    return len(ops) >= 3 and len(kinds) >= 2


def distribution(pid, cases):
    d = {"ops": {}, "sizes": {}}
    for c in cases:
        ops = c.rsplit(" | ", 1)[-1].split(" ; ")
        b = min(len(ops) // 10 * 10, 100)
        d["sizes"]["%d-%d ops" % (b, b + 9)] = d["sizes"].get("%d-%d ops" % (b, b + 9), 0) + 1
        for o in ops:
            k = o.split(" ")[0]
            d["ops"][k] = d["ops"].get(k, 0) + 1
    return d
NOT_CLAIMED = {}
