"""Per-property configuration for bin/check."""
import re

COMMON_MODELLED = [
    "Go slices modelled as lists (DESIGN §4.2)", "Go int as Int with explicit wrap64 at arithmetic sites",
    "reflect outcomes as data (DESIGN §4.4)", "user closures as pure functions",
]

PROPS = {
    "C01": {
        "lean": ["Stackage.Props.C01"],
        "streams": [{"name": "hist", "quick": 3000, "thorough": 60000}],
        "rule": "random histories of the 8 content mutators (+ FIFO / index-option switches) with boundary-biased indices on stacks of "
                "every kind, LIFO/FIFO, capacity none or 1..6; full observation (Len, Index over [-Len-1, Len+1], Front, Back, IsEmpty, return "
                "values) after every step; distinct = distinct case text; non-trivial = at least 3 operations of at least 2 different kinds",
        "modelled": COMMON_MODELLED,
        "assumptions": ["no push policy installed (C14 covers policies)", "lengths < 2^62, ints are 64-bit"],
    },
    "C08": {
        "lean": ["Stackage.Props.C08"],
        "streams": [{"name": "histx", "quick": 3000, "thorough": 60000}],
        "rule": "histories of the content mutators whose int arguments are drawn from {MinInt, MinInt+1, -Len-1..Len+1, MaxInt} on stacks of "
                "length 0..4, all four index-option combinations, every kind; after each call Len/Index*/Front/Back/Cap/Avail are re-read; "
                "non-trivial = at least 3 operations of at least 2 kinds",
        "modelled": COMMON_MODELLED,
        "assumptions": ["lengths < 2^62, ints are 64-bit"],
    },
    "C03": {
        "lean": ["Stackage.Props.C03"],
        "streams": [{"name": "capx", "quick": 3000, "thorough": 60000}],
        "rule": "histories hugging the capacity boundary: push batches that partly fit, Insert, Transfer-into, pop/remove/reset then grow again; "
                "k in 1..6 (and no capacity), every kind, LIFO/FIFO; Len/Cap/Avail/IsFull and return values compared after every step; "
                "non-trivial = at least 3 operations of at least 2 kinds",
        "modelled": COMMON_MODELLED,
        "assumptions": ["Marshal-into is covered through Push (C16 check exercises Marshal into initialised receivers)"],
    },
    "C13": {
        "lean": ["Stackage.Props.C13"],
        "streams": [{"name": "nest", "quick": 3000, "thorough": 60000}],
        "rule": "push batches mixing stacks, aliases (with/without String), pointers to aliases, zero-valued instances, Conditions, nil and primitives, "
                "interleaved with switching no-nesting on/off, on every kind; content, CanNest and IsNesting compared after every step",
        "modelled": COMMON_MODELLED,
    },
    "C14": {
        "lean": ["Stackage.Props.C14"],
        "streams": [{"name": "pol", "quick": 3000, "thorough": 60000}],
        "rule": "push batches against five push policies (reject nil / strings / ints>5 / nothing / everything) with install/replace/remove, with and "
                "without capacity; content and Err() class compared after every step",
        "modelled": COMMON_MODELLED,
        "assumptions": ["policies are pure functions of the offered value"],
    },
    "C15": {
        "lean": ["Stackage.Props.C15"],
        "streams": [{"name": "xfer", "quick": 3000, "thorough": 60000}],
        "rule": "|src| 0..5 x |dst| 0..5 x capacity none or 1..6 x destination forms {native, alias, alias with String, pointer, read-only, zero, foreign} x "
                "source LIFO/FIFO with nil elements, some destinations with push policy / no-nesting; result flag, destination and source content compared",
        "modelled": COMMON_MODELLED,
        "assumptions": ["source and destination are distinct objects (s.Transfer(s) does not terminate; outside the model)"],
    },
    "C05": {
        "lean": ["Stackage.Props.C05"],
        "streams": [{"name": "eqpair", "quick": 3000, "thorough": 60000}, {"name": "equnit", "quick": 1500, "thorough": 30000}],
        "rule": "eqpair: random trees (every kind, capacity, case-folding, nested stacks / conditions in native, alias, alias-with-String and pointer form, "
                "operators incl. none and user-defined) whose leaves are drawn type-directed from ~70 Go types ([]int, [3]int, []string, []*int incl. nil "
                "elements, map[string]int, structs with exported / embedded / private fields, **int, typed nils, funcs, chans, NaN, declared scalar types, "
                "[]any, *any, uintptr ...); each tree is paired with an independently rebuilt copy (30%), with itself (same pointer) or with a copy carrying "
                "exactly one point mutation: 60% at a position drawn uniformly from ALL positions of ALL leaves (scalar, slice/array element, map key/value, "
                "element added/removed/swapped, slice capacity, private field), else a kind, capacity, keyword, operator, expression, sibling swap, element "
                "added/removed/replaced; a.IsEqual(b) and b.IsEqual(a) are observed as eq / ne / PANIC. equnit: the same leaf pairs straight into valuesEqual. "
                "non-trivial = not the self pair and at least one element in the tree",
        "modelled": COMMON_MODELLED + ["float / complex values carried as the text Go prints plus a NaN flag", "channels by (type, id) identity, funcs by type",
                                       "map iteration in list order (verdict is order-independent)"],
        "assumptions": ["operands are independently built (no shared backing arrays); Stack/Condition values inside slice, map or struct leaves are outside the universe",
                        "user Operator methods and EqualityPolicy closures are pure and do not panic"],
        "level_text": "Lean 4 theorems over the model of IsEqual/valuesEqual for all values of the reflect universe EV: C05_iff (IsEqual = nil iff same description, "
                      "on the property's domain), C05_refl, C05_symm, C05_point_mutation(_leaf) at any depth and position; C05_total is proved under the hypothesis "
                      "that embedded struct fields on both sides have one visibility (C05_total_partial) and refuted without it (C05_total_refuted, known finding K-C05-1)",
        "explanation": "S line: inside the domain the verdict of the independent specification sameDesc; outside it the specification only demands 'no panic' and the line "
                       "repeats the model's verdict. Known findings K-C05-1 (mixed-visibility embedded fields panic) and K-C05-2 (a one-private-field struct equals any "
                       "Stack/Condition on its right) are residual defects of the repaired code, tagged by the driver (C05.MixedEmbedded / C05.HandleLike).",
    },
}


def _project_obs(text, keep):
    """keep only the observation token classes in `keep`:
    ret (return values), L, I (the Index block), F, B, E, c, a, u, N, G, R; src{..}/dst{..} blocks are projected recursively"""
    out, toks, k = [], text.split(" "), 0
    seenL = False
    while k < len(toks):
        t = toks[k]
        if t.startswith("src{") or t.startswith("dst{"):
            depth, j = 0, k
            while True:
                depth += toks[j].count("{") - toks[j].count("}")
                if depth <= 0:
                    break
                j += 1
            inner = " ".join(toks[k:j + 1])
            head, body = inner[:4], inner[4:-1]
            out.append(head + _project_obs(body, keep) + "}")
            k = j + 1
            continue
        if t == "[" or t.startswith("["):
            j = k
            while not toks[j].endswith("]"):
                j += 1
            if "I" in keep:
                out.append(" ".join(toks[k:j + 1]))
            k = j + 1
            continue
        m = re.fullmatch(r"L-?\d+", t)
        if m:
            seenL = True
            if "L" in keep:
                out.append(t)
        elif not seenL:
            if "ret" in keep:
                out.append(t)
        else:
            cls = t[:1]
            if cls in keep:
                out.append(t)
            elif cls not in "FBEcauNGR":
                out.append(t)
        k += 1
    return " ".join(out)


def _keep(*classes):
    ks = set(classes)
    def f(out):
        return " ; ".join(_project_obs(st, ks) for st in out.split(" ; "))
    return f


def _c03(out):
    """C03 looks at Len/Cap/Avail/IsFull. A Transfer-into step is projected to the invariants only (its result flag and
    all-or-nothing behaviour belong to C15): Cap constant, Avail == Cap-Len, IsFull == (Len==Cap), Len <= Cap."""
    steps = []
    for st in out.split(" ; "):
        pr = _project_obs(st, {"ret", "L", "c", "a", "u"})
        if "src{" in st:
            m = re.search(r"\} L(-?\d+) c(-?\d+) a(-?\d+) u([01])", pr)
            if m:
                L, c, a, u = int(m.group(1)), int(m.group(2)), int(m.group(3)), m.group(4)
                okc = (c == -1 and a == -1 and u == "0") or (c > 0 and L <= c and a == c - L and (u == "1") == (L == c))
                pr = "xferto c%d inv=%s" % (c, okc)
        steps.append(pr)
    return " ; ".join(steps)


def _c05(out):
    """C05 names only: equal, not equal, panic"""
    return re.sub(r"ne:[A-Za-z0-9?]+", "ne", out)


PROJ = {
    "C05": _c05,
    "C01": _keep("ret", "L", "I", "F", "B", "E"),
    "C08": _keep("ret", "L", "I", "F", "B", "E", "c", "a", "u"),
    "C03": _c03,
    "C13": _keep("L", "I", "N", "G"),
    "C14": _keep("L", "I", "R"),
    "C15": _keep("ret", "L", "I"),
}


def projection(pid, stream):
    return PROJ.get(pid, lambda s: s)


def in_scope(pid, stream, tags):
    if pid == "C01":
        return "oos" not in tags.split()
    return True


def nontrivial(pid, payload):
    ops = payload.rsplit(" | ", 1)[-1].split(" ; ")
    kinds = {o.split(" ")[0] for o in ops if o}
    if pid == "C05":
        return not payload.endswith("| self") and " [ ]" not in payload.split(" | ")[0][:12]
    if pid == "C15":
        return " [ ]" not in payload.split(" | ")[0]     # non-empty source
    if pid in ("C13", "C14"):
        return len(ops) >= 2
    return len(ops) >= 3 and len(kinds) >= 2


def distribution(pid, cases):
    d = {"ops": {}, "sizes": {}}
    for c in cases:
        ops = c.rsplit(" | ", 1)[-1].split(" ; ")
        b = min(len(ops) // 10 * 10, 100)
        d["sizes"]["%d-%d ops" % (b, b + 9)] = d["sizes"].get("%d-%d ops" % (b, b + 9), 0) + 1
        for o in ops:
            k = o.split(" ")[0]
            d["ops"][k] = d["ops"].get(k, 0) + 1
    return d
NOT_CLAIMED = {}
