"""Per-property configuration for bin/check."""
import re

COMMON_MODELLED = [
    "Go slices modelled as lists (DESIGN §4.2)", "Go int as Int with explicit wrap64 at arithmetic sites",
    "reflect outcomes as data (DESIGN §4.4)", "user closures as pure functions",
]

C10_LEVEL = ("proof, partial: proof at lock-segment granularity (mutual exclusion, linearizability for every schedule / number of threads / "
                 "program length, no deadlock, writes under the lock, tied to the source by decide-checked lock-placement facts); word-level data "
                 "races are not expressible in the model - that clause is carried as known finding K-C10-race, with the race detector "
                 "(16-goroutine stress, thorough tier) as supporting evidence")

PROPS = {
    "C01": {
        "lean": ["Stackage.Props.C01"],
        "streams": [{"name": "hist", "quick": 3000, "thorough": 60000}],
        "rule": "random histories of the 8 content mutators (+ FIFO / index-option switches) with boundary-biased indices on stacks of "
                "every kind, LIFO/FIFO, capacity none or 1..6; full observation (Len, Index over [-Len-1, Len+1], Front, Back, IsEmpty, return "
                "values) after every step; distinct = distinct case text; non-trivial = at least 3 operations of at least 2 different kinds",
        "modelled": COMMON_MODELLED,
        "assumptions": ["no push policy installed (C14 covers policies)", "lengths < 2^62, ints are 64-bit"],
    },
    "C08": {
        "lean": ["Stackage.Props.C08"],
        "streams": [{"name": "histx", "quick": 3000, "thorough": 60000}],
        "rule": "histories of the content mutators whose int arguments are drawn from {MinInt, MinInt+1, -Len-1..Len+1, MaxInt} on stacks of "
                "length 0..4, all four index-option combinations, every kind; after each call Len/Index*/Front/Back/Cap/Avail are re-read; "
                "non-trivial = at least 3 operations of at least 2 kinds",
        "modelled": COMMON_MODELLED,
        "assumptions": ["lengths < 2^62, ints are 64-bit"],
    },
    "C03": {
        "lean": ["Stackage.Props.C03"],
        "streams": [{"name": "capx", "quick": 3000, "thorough": 60000}],
        "rule": "histories hugging the capacity boundary: push batches that partly fit, Insert, Transfer-into, pop/remove/reset then grow again; "
                "k in 1..6 (and no capacity), every kind, LIFO/FIFO; Len/Cap/Avail/IsFull and return values compared after every step; "
                "non-trivial = at least 3 operations of at least 2 kinds",
        "modelled": COMMON_MODELLED,
        "assumptions": ["Marshal-into is covered through Push (C16 check exercises Marshal into initialised receivers)"],
    },
    "C13": {
        "lean": ["Stackage.Props.C13"],
        "streams": [{"name": "nest", "quick": 3000, "thorough": 60000}],
        "rule": "push batches mixing stacks, aliases (with/without String), pointers to aliases, zero-valued instances, Conditions, nil and primitives, "
                "interleaved with switching no-nesting on/off, on every kind; content, CanNest and IsNesting compared after every step",
        "modelled": COMMON_MODELLED,
    },
    "C14": {
        "lean": ["Stackage.Props.C14"],
        "streams": [{"name": "pol", "quick": 3000, "thorough": 60000}],
        "rule": "push batches against five push policies (reject nil / strings / ints>5 / nothing / everything) with install/replace/remove, with and "
                "without capacity; content and Err() class compared after every step",
        "modelled": COMMON_MODELLED,
        "assumptions": ["policies are pure functions of the offered value"],
    },
    "C15": {
        "lean": ["Stackage.Props.C15"],
        "streams": [{"name": "xfer", "quick": 3000, "thorough": 60000}],
        "rule": "|src| 0..5 x |dst| 0..5 x capacity none or 1..6 x destination forms {native, alias, alias with String, pointer, read-only, zero, foreign} x "
                "source LIFO/FIFO with nil elements, some destinations with push policy / no-nesting; result flag, destination and source content compared",
        "modelled": COMMON_MODELLED,
        "assumptions": ["source and destination are distinct objects (s.Transfer(s) does not terminate; outside the model)"],
    },
    "C10": {
        "lean": ["Stackage.Props.C10"],
        "open": "Stackage Stackage.Stk Stackage.Conc",
        "streams": [{"name": "sched", "quick": 3000, "thorough": 60000}],
        "level": C10_LEVEL,
        "level_text": C10_LEVEL,
        "level_note": "Trusted: Lean kernel; axioms propext, Classical.choice, Quot.sound; extractor (lock-placement facts read syntactically: position of "
                      "lock() relative to the first content read); the scheduler correspondence (bounded enumeration, supporting evidence); sync.Mutex as an "
                      "atomic acquire/release; a lock segment is atomic - memory-level races are outside the model (known finding K-C10-race)",
        "rule": "deterministic scheduler on the VerifHook lock points: 2-3 goroutines x 1-3 content mutators (quick: 3 x <=2) on mutex-enabled stacks "
                "of length 0..3, every kind, LIFO/FIFO, capacity none or within 2 of the length, occasional negative/forward index options and nil "
                "elements; per configuration ALL interleavings at lock-acquisition granularity when there are <= 60 (thorough: <= 2000), else a random "
                "sample of 40 (400); observed: every call's return values, final content, IsInit, whether content changed only between lock.held and "
                "lock.released, deadlock watchdog; compared with the Lean interleaving model on the same schedule and checked for membership in the set "
                "of sequential outcomes; distinct = distinct case text; non-trivial = at least two threads and a schedule that switches back to a thread it left",
        "modelled": COMMON_MODELLED + ["sync.Mutex as an atomic acquire/release without fairness", "the Go scheduler at hook (lock-segment) granularity",
                                       "a lock segment is atomic: word-level interleavings are not represented"],
        "assumptions": ["no push policy installed", "lengths < 2^62, ints are 64-bit",
                        "only the eight content mutators run concurrently (option setters, Defrag, Reveal, Transfer are not in the alphabet)"],
        "explanation": "S is the set of outcomes of all sequential orders consistent with program order; the implementation's observation must be a member",
    },
}


def _project_obs(text, keep):
    """keep only the observation token classes in `keep`:
    ret (return values), L, I (the Index block), F, B, E, c, a, u, N, G, R; src{..}/dst{..} blocks are projected recursively"""
    out, toks, k = [], text.split(" "), 0
    seenL = False
    while k < len(toks):
        t = toks[k]
        if t.startswith("src{") or t.startswith("dst{"):
            depth, j = 0, k
            while True:
                depth += toks[j].count("{") - toks[j].count("}")
                if depth <= 0:
                    break
                j += 1
            inner = " ".join(toks[k:j + 1])
            head, body = inner[:4], inner[4:-1]
            out.append(head + _project_obs(body, keep) + "}")
            k = j + 1
            continue
        if t == "[" or t.startswith("["):
            j = k
            while not toks[j].endswith("]"):
                j += 1
            if "I" in keep:
                out.append(" ".join(toks[k:j + 1]))
            k = j + 1
            continue
        m = re.fullmatch(r"L-?\d+", t)
        if m:
            seenL = True
            if "L" in keep:
                out.append(t)
        elif not seenL:
            if "ret" in keep:
                out.append(t)
        else:
            cls = t[:1]
            if cls in keep:
                out.append(t)
            elif cls not in "FBEcauNGR":
                out.append(t)
        k += 1
    return " ".join(out)


def _keep(*classes):
    ks = set(classes)
    def f(out):
        return " ; ".join(_project_obs(st, ks) for st in out.split(" ; "))
    return f


def _c03(out):
    """C03 looks at Len/Cap/Avail/IsFull. A Transfer-into step is projected to the invariants only (its result flag and
    all-or-nothing behaviour belong to C15): Cap constant, Avail == Cap-Len, IsFull == (Len==Cap), Len <= Cap."""
    steps = []
    for st in out.split(" ; "):
        pr = _project_obs(st, {"ret", "L", "c", "a", "u"})
        if "src{" in st:
            m = re.search(r"\} L(-?\d+) c(-?\d+) a(-?\d+) u([01])", pr)
            if m:
                L, c, a, u = int(m.group(1)), int(m.group(2)), int(m.group(3)), m.group(4)
                okc = (c == -1 and a == -1 and u == "0") or (c > 0 and L <= c and a == c - L and (u == "1") == (L == c))
                pr = "xferto c%d inv=%s" % (c, okc)
        steps.append(pr)
    return " ; ".join(steps)


PROJ = {
    "C01": _keep("ret", "L", "I", "F", "B", "E"),
    "C08": _keep("ret", "L", "I", "F", "B", "E", "c", "a", "u"),
    "C03": _c03,
    "C13": _keep("L", "I", "N", "G"),
    "C14": _keep("L", "I", "R"),
    "C15": _keep("ret", "L", "I"),
}


def projection(pid, stream):
    return PROJ.get(pid, lambda s: s)


def in_scope(pid, stream, tags):
    if pid == "C01":
        return "oos" not in tags.split()
    return True


def nontrivial(pid, payload):
    ops = payload.rsplit(" | ", 1)[-1].split(" ; ")
    kinds = {o.split(" ")[0] for o in ops if o}
    if pid == "C10":   # at least two threads, and the schedule really interleaves them (not one thread after the other)
        sec = payload.split(" | ")
        if len(sec) < 3:
            return False
        turns = sec[2].split()
        blocks = [t for k, t in enumerate(turns) if k == 0 or turns[k - 1] != t]
        return len(sec[1].split(" / ")) >= 2 and len(blocks) > len(set(turns))
    if pid == "C15":
        return " [ ]" not in payload.split(" | ")[0]     # non-empty source
    if pid in ("C13", "C14"):
        return len(ops) >= 2
    return len(ops) >= 3 and len(kinds) >= 2


def distribution(pid, cases):
    d = {"ops": {}, "sizes": {}}
    for c in cases:
        if pid == "C10" and c.count(" | ") >= 3:
            progs = c.split(" | ")[2].split(" / ")
            k = "%d threads" % len(progs)
            d["sizes"][k] = d["sizes"].get(k, 0) + 1
            for pr in progs:
                for o in pr.split(" ; "):
                    d["ops"][o.split(" ")[0]] = d["ops"].get(o.split(" ")[0], 0) + 1
            continue
        ops = c.rsplit(" | ", 1)[-1].split(" ; ")
        b = min(len(ops) // 10 * 10, 100)
        d["sizes"]["%d-%d ops" % (b, b + 9)] = d["sizes"].get("%d-%d ops" % (b, b + 9), 0) + 1
        for o in ops:
            k = o.split(" ")[0]
            d["ops"][k] = d["ops"].get(k, 0) + 1
    return d
NOT_CLAIMED = {}


# ---- relational specifications: the S line is a set of admissible observations separated by " || " ----------------------------------
def resolve(pid, stream, impl, spec):
    """pick from a set-valued specification line the member the implementation produced (or, for the report, the closest one)"""
    if " || " not in spec and pid != "C10":
        return spec
    alts = spec.split(" || ")
    if impl in alts:
        return impl
    def score(a):
        ta, ti = a.split(" ; "), (impl or "").split(" ; ")
        return sum(1 for x, y in zip(ta, ti) if x == y)
    return max(alts, key=score)


def extra_checks(run):
    """property-specific extra steps; each returns a list of (name, detail, replay text) violations"""
    if run.pid == "C10":
        import c10_extra
        return c10_extra.extra_checks(run)
    return []
