"""Extra steps of the C10 check (called through props.extra_checks):

quick     free-running stress (16 goroutines, no race detector): invariants afterwards
thorough  the same built with `go build -race`; every race report is classified by call site:
            K-C10-race  an unlocked *read* made by an exported wrapper before the lock is taken
                        (IsInit / getState / IsEmpty / Len, or the mutex lookup inside lock())
                        against a *write* made inside a locked section          -> KNOWN-FINDING
            anything else (write/write, a read inside a private mutator, ...)   -> VIOLATION
"""
import os, re, subprocess

PKG = "github.com/JesseCoretta/go-stackage."
# exported-wrapper reads that happen before lock() (DESIGN §9 row 24)
# (Stack.SetMutex on an instance whose mutex exists already only *reads* the configuration slot, without the lock, like the others:
#  the stress run asks for the mutex again while the goroutines are running; a *write* made there is not in this class)
UNLOCKED_READERS = {"Stack.IsInit", "Stack.getState", "Stack.IsEmpty", "Stack.Len", "Stack.IsZero", "Stack.SetMutex"}
# private functions whose bodies run under the lock
LOCKED_WRITERS = {"(*stack).push", "(*stack).genericAppend", "(*stack).methodAppend", "(*stack).pop", "(*stack).insert", "(*stack).remove",
                  "(*stack).replace", "(*stack).swap", "(*stack).reverse", "(*stack).reset", "(*stack).lock", "(*stack).unlock",
                  # the three option writers (lock(), then the write to the option word; exercised by the toggle rounds of the stress)
                  "(*stack).toggleOpt", "(*stack).setOpt", "(*stack).unsetOpt"}


def parse_races(stderr):
    """-> list of (accesses, text); an access = (kind 'read'|'write', [library frames, innermost first])"""
    out = []
    for blk in stderr.split("=================="):
        if "WARNING: DATA RACE" not in blk:
            continue
        acc = []
        for sec in re.split(r"\n\s*\n", blk):
            m = re.match(r"\s*(?:WARNING: DATA RACE\n)?\s*(Read|Write|Previous read|Previous write|Atomic [a-z]+|Previous atomic [a-z]+) at ", sec)
            if not m:
                continue
            kind = "write" if "rite" in m.group(1) else "read"
            frames = [f[len(PKG):-2] if f.endswith("()") else f[len(PKG):] for f in re.findall(r"^\s+(%s\S+)\s*$" % re.escape(PKG), sec, flags=re.M)]
            acc.append((kind, frames))
        out.append((acc, blk.strip()))
    return out


PRIVATE = LOCKED_WRITERS - {"(*stack).lock", "(*stack).unlock"}


def read_class(frames):
    """which code made the read: an exported wrapper before the lock ('wrapper'), or code that should hold the lock ('private')"""
    if "(*stack).unlock" in frames:
        return "private"     # a read in unlock() can only race if it sits after Unlock(), i.e. outside the critical section
    if "(*stack).lock" in frames:
        return "wrapper"     # the mutex lookup (canMutex / mutex -> slot 0) necessarily precedes the acquisition
    for f in frames:         # innermost first
        if f in UNLOCKED_READERS:
            return "wrapper"
        if f in PRIVATE:
            return "private"
    return "other"


def classify(acc):
    """-> ('known'|'violation', short description)"""
    def name(a):
        return "%s in %s" % (a[0], " <- ".join(a[1][:4]) or "?")
    desc = " / ".join(sorted(name(a) for a in acc))
    reads = [a for a in acc if a[0] == "read"]
    writes = [a for a in acc if a[0] == "write"]
    if len(acc) != 2 or len(reads) != 1 or len(writes) != 1:
        return "violation", desc
    if read_class(reads[0][1]) == "wrapper" and any(f in LOCKED_WRITERS for f in writes[0][1]):
        return "known", desc
    return "violation", desc


def extra_checks(run):
    ROOT = os.path.dirname(os.path.dirname(os.path.abspath(__file__)))
    res = []
    if not run.harness:
        return res
    env = dict(os.environ, GOFLAGS="-mod=mod", GOPROXY="off", GOSUMDB="off", GOTOOLCHAIN="local", GORACE="exitcode=0")
    # (a round takes about 10 ms: the window of a defect at word granularity is hit in some rounds only, so there are many)
    rounds, ops = ("80", "500") if run.tier == "quick" else ("160", "800")
    binary = run.harness
    race = False
    if run.tier == "thorough":
        binary = os.path.join(run.work, "harness-race")
        b = subprocess.run(["go", "build", "-race", "-modfile", os.path.join(run.work, "go.mod"), "-tags", "verif", "-o", binary, "."],
                           cwd=os.path.join(ROOT, "harness"), env=dict(env, CGO_ENABLED="1"), stdout=subprocess.PIPE, stderr=subprocess.STDOUT, text=True)
        if b.returncode != 0:
            run.notes.append("race build of the harness failed, stress ran without the race detector: " + b.stdout.strip()[-200:])
            binary = run.harness
        else:
            race = True
    cmd = [binary, "stress", "-seed", str(run.seed), "-rounds", rounds, "-ops", ops]
    try:
        p = subprocess.run(cmd, env=env, stdout=subprocess.PIPE, stderr=subprocess.PIPE, text=True, timeout=2400)
        out, err, rc = p.stdout, p.stderr, p.returncode
    except subprocess.TimeoutExpired as e:
        txt = lambda b: b.decode("utf-8", "replace") if isinstance(b, bytes) else (b or "")
        out, err, rc = txt(e.stdout), txt(e.stderr), -1
        res.append(("stress-timeout", "free-running stress did not finish within 2400 s (deadlock?)", "cmd: %s\n" % " ".join(cmd)))
    fails = [l for l in out.split("\n") if l.startswith("STRESS-FAIL")]
    done = [l for l in out.split("\n") if l.startswith("STRESS-DONE")]
    run.notes.append("stress%s: %s" % (" (-race)" if race else "", done[0] if done else "no summary (exit %s)" % rc))
    if fails or (rc not in (0, 1) and rc != -1) or (not done and rc != -1):
        detail = "free-running stress (16 goroutines on one mutex-enabled stack): %d invariant failures, first: %s" % (
            len(fails), fails[0] if fails else "process exited with %s: %s" % (rc, err.strip()[-300:]))
        res.append(("stress", detail, "cmd: %s\n%s\n%s" % (" ".join(cmd), "\n".join(fails[:40]), err[-3000:] if not fails else "")))
    if race:
        known, viol = {}, {}
        for acc, text in parse_races(err):
            cls, desc = classify(acc)
            (known if cls == "known" else viol).setdefault(desc, text)
        run.notes.append("race detector: %d reports in the K-C10-race call-site class, %d outside it" % (len(known), len(viol)))
        for desc in sorted(known)[:8]:
            print("KNOWN-FINDING: property=C10 K-C10-race data race, unlocked wrapper read vs locked write: %s" % desc[:220])
        if len(known) > 8:
            print("KNOWN-FINDING: property=C10 K-C10-race ... and %d more race reports of the same call-site class" % (len(known) - 8))
        # report one representative per call-site class (the function that should have held the lock), at most 8
        picked = {}
        for desc in sorted(viol):
            parts = desc.split(" / ")
            site = lambda p: next((f for f in p.split(" in ", 1)[-1].split(" <- ") if f in LOCKED_WRITERS), p.split(" in ", 1)[-1].split(" <- ")[0])
            key = tuple(sorted((p.split(" ")[0], site(p)) for p in parts if p.startswith("read"))) or ("write/write", site(parts[0]))
            picked.setdefault(key, desc)
        for k, desc in enumerate(list(picked.values())[:8]):
            res.append(("race-%d" % k, "data race outside the known call-site class (%d such reports in all): %s" % (len(viol), desc),
                        "cmd: GORACE=exitcode=0 %s\n\n%s\n" % (" ".join(cmd), viol[desc])))
    return res
