// Command extract regenerates the Lean modules under lean/Stackage/Gen from
// the Go sources of go-stackage (default /repo). It is deliberately tiny:
//
//   - const blocks and string tables           -> Gen/Consts.lean
//   - whitelisted straight-line scalar funcs    -> Gen/Funcs.lean
//   - whitelisted guard conditions (k-th `if`)  -> Gen/Conds.lean
//   - per-method facts (guards, writes, locks)  -> Gen/Facts.lean + facts.json
//
// Anything it does not understand makes it fail loudly (exit 2): a broken tie,
// never a silently skipped one.
package main

import (
	"encoding/json"
	"flag"
	"fmt"
	"go/ast"
	"go/constant"
	"go/importer"
	"go/parser"
	"go/token"
	"go/types"
	"os"
	"path/filepath"
	"sort"
	"strings"
)

var (
	fset  = token.NewFileSet()
	info  *types.Info
	pkg   *types.Package
	files []*ast.File
	funcs = map[string]*ast.FuncDecl{} // key: "recv.name" or "name"
)

func die(f string, a ...any) {
	fmt.Fprintf(os.Stderr, "extract: "+f+"\n", a...)
	os.Exit(2)
}

func recvName(fd *ast.FuncDecl) string {
	if fd.Recv == nil || len(fd.Recv.List) == 0 {
		return ""
	}
	t := fd.Recv.List[0].Type
	if s, ok := t.(*ast.StarExpr); ok {
		t = s.X
	}
	if id, ok := t.(*ast.Ident); ok {
		return id.Name
	}
	return ""
}

func recvIsPtr(fd *ast.FuncDecl) bool {
	if fd.Recv == nil || len(fd.Recv.List) == 0 {
		return false
	}
	_, ok := fd.Recv.List[0].Type.(*ast.StarExpr)
	return ok
}

func fkey(fd *ast.FuncDecl) string {
	if r := recvName(fd); r != "" {
		return r + "." + fd.Name.Name
	}
	return fd.Name.Name
}

func load(dir string) {
	ents, err := os.ReadDir(dir)
	if err != nil {
		die("%v", err)
	}
	for _, e := range ents {
		n := e.Name()
		if !strings.HasSuffix(n, ".go") || strings.HasSuffix(n, "_test.go") {
			continue
		}
		src, err := os.ReadFile(filepath.Join(dir, n))
		if err != nil {
			die("%v", err)
		}
		// the verification hooks themselves are not part of the library
		if strings.Contains(string(src), "//go:build verif\n") {
			continue
		}
		f, err := parser.ParseFile(fset, filepath.Join(dir, n), src, parser.ParseComments)
		if err != nil {
			die("parse %s: %v", n, err)
		}
		files = append(files, f)
	}
	conf := types.Config{Importer: importer.ForCompiler(fset, "source", nil), Error: func(err error) {}}
	info = &types.Info{Types: map[ast.Expr]types.TypeAndValue{}, Defs: map[*ast.Ident]types.Object{}, Uses: map[*ast.Ident]types.Object{}}
	pkg, err = conf.Check("stackage", fset, files, info)
	if err != nil {
		die("typecheck: %v", err)
	}
	for _, f := range files {
		for _, d := range f.Decls {
			if fd, ok := d.(*ast.FuncDecl); ok {
				funcs[fkey(fd)] = fd
			}
		}
	}
}

func writeIfChanged(path, content string) {
	old, err := os.ReadFile(path)
	if err == nil && string(old) == content {
		return
	}
	if err := os.MkdirAll(filepath.Dir(path), 0o755); err != nil {
		die("%v", err)
	}
	if err := os.WriteFile(path, []byte(content), 0o644); err != nil {
		die("%v", err)
	}
}

func main() {
	repo := flag.String("repo", "/repo", "go-stackage source directory")
	out := flag.String("out", "", "output directory for Gen/*.lean (required)")
	factsJSON := flag.String("facts", "", "optional path for facts.json")
	dump := flag.Bool("dumpvars", false, "print the declared variables of the guard-site functions (to refresh canon.go)")
	flag.Parse()
	if *dump {
		load(*repo)
		dumpVars()
		return
	}
	if *out == "" {
		die("-out required")
	}
	load(*repo)
	writeIfChanged(filepath.Join(*out, "Consts.lean"), genConsts())
	writeIfChanged(filepath.Join(*out, "Funcs.lean"), genFuncs())
	writeIfChanged(filepath.Join(*out, "Conds.lean"), genConds())
	writeIfChanged(filepath.Join(*out, "Opts.lean"), genOpts())
	facts := collectFacts()
	writeIfChanged(filepath.Join(*out, "Facts.lean"), genFacts(facts))
	writeIfChanged(filepath.Join(*out, "Locks.lean"), genLocks())
	if *factsJSON != "" {
		b, _ := json.MarshalIndent(facts, "", " ")
		writeIfChanged(*factsJSON, string(b)+"\n")
	}
}

// ---------------------------------------------------------------------------
// constants and tables

func constVal(name string) (int64, bool) {
	obj := pkg.Scope().Lookup(name)
	c, ok := obj.(*types.Const)
	if !ok {
		return 0, false
	}
	v, ok := constant.Int64Val(constant.ToInt(c.Val()))
	if !ok {
		u, ok2 := constant.Uint64Val(constant.ToInt(c.Val()))
		return int64(u), ok2
	}
	return v, true
}

// leanStr renders a Go string as a Lean `List Char` literal (Text).
func leanStr(s string) string {
	var b strings.Builder
	b.WriteByte('[')
	first := true
	for _, r := range s {
		if !first {
			b.WriteString(", ")
		}
		first = false
		switch {
		case r == '\'':
			b.WriteString("'\\''")
		case r == '\\':
			b.WriteString("'\\\\'")
		case r < 32 || r > 126:
			fmt.Fprintf(&b, "Char.ofNat %d", r)
		default:
			fmt.Fprintf(&b, "'%c'", r)
		}
	}
	b.WriteByte(']')
	return b.String()
}

// switchTable reads `switch r { case A: t = "..." ... }` in a String() method
func switchTable(key string) [][2]string {
	fd := funcs[key]
	if fd == nil {
		die("missing %s", key)
	}
	var res [][2]string
	ast.Inspect(fd.Body, func(n ast.Node) bool {
		sw, ok := n.(*ast.SwitchStmt)
		if !ok {
			return true
		}
		for _, c := range sw.Body.List {
			cc := c.(*ast.CaseClause)
			if cc.List == nil {
				continue // `default:` (the fallback text is read elsewhere)
			}
			if len(cc.Body) != 1 {
				die("%s: unsupported case body", key)
			}
			// `t = "..."` or `return "..."`
			var val ast.Expr
			switch st := cc.Body[0].(type) {
			case *ast.AssignStmt:
				if len(st.Rhs) == 1 {
					val = st.Rhs[0]
				}
			case *ast.ReturnStmt:
				if len(st.Results) == 1 {
					val = st.Results[0]
				}
			}
			if val == nil {
				die("%s: unsupported case body", key)
			}
			lit, ok := val.(*ast.BasicLit)
			if !ok || lit.Kind != token.STRING {
				die("%s: case value is not a string literal", key)
			}
			for _, e := range cc.List {
				id, ok := e.(*ast.Ident)
				if !ok {
					die("%s: case label is not an identifier", key)
				}
				res = append(res, [2]string{id.Name, strings.Trim(lit.Value, "`\"")})
			}
		}
		return false
	})
	return res
}

// mapTable reads a `name = map[K]string{ A: "..", ... }` composite literal in init()
func mapTable(varName string) [][2]string {
	var res [][2]string
	for _, f := range files {
		ast.Inspect(f, func(n ast.Node) bool {
			as, ok := n.(*ast.AssignStmt)
			if !ok || len(as.Lhs) != 1 || len(as.Rhs) != 1 {
				return true
			}
			id, ok := as.Lhs[0].(*ast.Ident)
			if !ok || id.Name != varName {
				return true
			}
			cl, ok := as.Rhs[0].(*ast.CompositeLit)
			if !ok {
				return true
			}
			for _, el := range cl.Elts {
				kv := el.(*ast.KeyValueExpr)
				var k, v string
				switch kk := kv.Key.(type) {
				case *ast.Ident:
					k = kk.Name
				case *ast.BasicLit:
					k = strings.Trim(kk.Value, "`\"")
				default:
					die("%s: unsupported key", varName)
				}
				switch vv := kv.Value.(type) {
				case *ast.Ident:
					v = vv.Name
				case *ast.BasicLit:
					v = strings.Trim(vv.Value, "`\"")
				default:
					die("%s: unsupported value", varName)
				}
				res = append(res, [2]string{k, v})
			}
			return false
		})
	}
	if len(res) == 0 {
		die("table %s not found", varName)
	}
	return res
}

var flagNames = []string{"parens", "cfold", "nspad", "lonce", "negidx", "fwdidx", "joinl", "ronly", "nnest", "etrav"}
var kindNames = []string{"and", "or", "not", "list", "cond", "basic"}
var opNames = []string{"nco", "Eq", "Ne", "Lt", "Gt", "Le", "Ge"}

func genConsts() string {
	var b strings.Builder
	b.WriteString("/- GENERATED by /verif/extract from /repo — do not edit. -/\nnamespace Gen\n\n")
	emit := func(prefix string, names []string) {
		for _, n := range names {
			v, ok := constVal(n)
			if !ok {
				die("constant %s not found", n)
			}
			fmt.Fprintf(&b, "def %s%s : Nat := %d\n", prefix, n, v)
		}
	}
	b.WriteString("-- cfgFlag bits\n")
	emit("flag_", flagNames)
	fmt.Fprintf(&b, "def allFlags : List Nat := [%s]\n\n", joinPref("flag_", flagNames))
	b.WriteString("-- stackType codes\n")
	emit("kind_", kindNames)
	b.WriteString("\n-- ComparisonOperator codes\n")
	emit("op_", opNames)
	b.WriteString("\n-- LogLevel bits\n")
	var lvls []string
	for _, n := range []string{"NoLogLevels", "LogLevel1", "LogLevel2", "LogLevel3", "LogLevel4", "LogLevel5", "LogLevel6",
		"UserLogLevel1", "UserLogLevel2", "UserLogLevel3", "UserLogLevel4", "UserLogLevel5", "UserLogLevel6", "UserLogLevel7",
		"UserLogLevel8", "UserLogLevel9", "UserLogLevel10", "AllLogLevels"} {
		lvls = append(lvls, n)
	}
	emit("lvl_", lvls)
	// tables
	b.WriteString("\n-- stackType.String\n")
	b.WriteString("def kindWord (k : Nat) : List Char :=\n")
	for _, kv := range switchTable("stackType.String") {
		v, _ := constVal(kv[0])
		fmt.Fprintf(&b, "  if k = %d then %s else\n", v, leanStr(kv[1]))
	}
	bad := stringConst("badStack")
	fmt.Fprintf(&b, "  %s\n", leanStr(bad))
	fmt.Fprintf(&b, "def badStack : List Char := %s\n", leanStr(bad))
	b.WriteString("\n-- ComparisonOperator.String\n")
	b.WriteString("def opText (k : Nat) : List Char :=\n")
	for _, kv := range switchTable("ComparisonOperator.String") {
		v, _ := constVal(kv[0])
		fmt.Fprintf(&b, "  if k = %d then %s else\n", v, leanStr(kv[1]))
	}
	fmt.Fprintf(&b, "  %s\n", leanStr(stringConst("badOp")))
	fmt.Fprintf(&b, "def compOpCtx : List Char := %s\n", leanStr(stringConst("compOpCtx")))
	// log level names: bit -> name, and name -> bit
	b.WriteString("\n-- logLevelNames / logLevelMap\n")
	names := mapTable("logLevelNames")
	b.WriteString("def lvlNames : List (Nat × List Char) := [")
	for i, kv := range names {
		v, ok := constVal(kv[0])
		if !ok {
			die("logLevelNames: %s", kv[0])
		}
		if i > 0 {
			b.WriteString(", ")
		}
		fmt.Fprintf(&b, "(%d, %s)", v, leanStr(kv[1]))
	}
	b.WriteString("]\n")
	lm := mapTable("logLevelMap")
	b.WriteString("def lvlMap : List (List Char × Nat) := [")
	for i, kv := range lm {
		v, ok := constVal(kv[1])
		if !ok {
			die("logLevelMap: %s", kv[1])
		}
		if i > 0 {
			b.WriteString(", ")
		}
		fmt.Fprintf(&b, "(%s, %d)", leanStr(kv[0]), v)
	}
	b.WriteString("]\n\nend Gen\n")
	return b.String()
}

func joinPref(p string, xs []string) string {
	var r []string
	for _, x := range xs {
		r = append(r, p+x)
	}
	return strings.Join(r, ", ")
}

func stringConst(name string) string {
	obj := pkg.Scope().Lookup(name)
	c, ok := obj.(*types.Const)
	if !ok || c.Val().Kind() != constant.String {
		die("string constant %s not found", name)
	}
	return constant.StringVal(c.Val())
}

// ---------------------------------------------------------------------------
// facts

type MethodFact struct {
	Recv        string   `json:"recv"`
	Name        string   `json:"name"`
	Exported    bool     `json:"exported"`
	PtrRecv     bool     `json:"ptr_recv"`
	InitGuard   bool     `json:"init_guard"`   // body mentions IsInit()/isInit()/IsZero()/IsEmpty() or a nil test of the receiver before anything else can run
	RonlyGuard  bool     `json:"ronly_guard"`  // body tests getState(ronly)
	Delegates   string   `json:"delegates"`    // exported method it simply returns (SetX -> X)
	UsesSetState bool    `json:"uses_set_state"`
	Writes      bool     `json:"writes"`       // assigns through receiver/config in its own body
	Locks       bool     `json:"locks"`        // calls lock() in its own body
	LockFirst   bool     `json:"lock_first"`   // lock() precedes every read of the receiver slice / ulen / index
	Callees     []string `json:"callees"`
	ReachWrite  bool     `json:"reach_write"` // some function reachable through static callee names writes through a receiver/config
	ReachLock   bool     `json:"reach_lock"`
	GetState    bool     `json:"get_state"` // calls getState(...) (which itself checks IsInit)
	ViaExported bool     `json:"via_exported"` // every use of the receiver is a call of one of its exported methods (nothing private is touched)
}

func collectFacts() []MethodFact {
	var keys []string
	for k := range funcs {
		keys = append(keys, k)
	}
	sort.Strings(keys)
	var res []MethodFact
	for _, k := range keys {
		fd := funcs[k]
		if fd.Body == nil {
			continue
		}
		mf := MethodFact{Recv: recvName(fd), Name: fd.Name.Name, Exported: fd.Name.IsExported(), PtrRecv: recvIsPtr(fd)}
		analyse(fd, &mf)
		res = append(res, mf)
	}
	// reachability over callee *names* (over-approximation: a name stands for
	// every function or method of the package with that name)
	byName := map[string][]int{}
	for i, f := range res {
		byName[f.Name] = append(byName[f.Name], i)
	}
	for i := range res {
		seen := map[int]bool{}
		var walk func(j int)
		walk = func(j int) {
			if seen[j] {
				return
			}
			seen[j] = true
			if res[j].Writes {
				res[i].ReachWrite = true
			}
			if res[j].Locks {
				res[i].ReachLock = true
			}
			for _, c := range res[j].Callees {
				for _, k := range byName[c] {
					walk(k)
				}
			}
		}
		walk(i)
	}
	return res
}

func selName(e ast.Expr) string {
	switch v := e.(type) {
	case *ast.SelectorExpr:
		return v.Sel.Name
	case *ast.Ident:
		return v.Name
	}
	return ""
}

func analyse(fd *ast.FuncDecl, mf *MethodFact) {
	recv := ""
	if fd.Recv != nil && len(fd.Recv.List) > 0 && len(fd.Recv.List[0].Names) > 0 {
		recv = fd.Recv.List[0].Names[0].Name
	}
	cfgVars := map[string]bool{}
	calleeSet := map[string]bool{}
	firstRead := token.NoPos
	firstLock := token.NoPos
	rootedAtRecv := func(e ast.Expr) bool {
		for {
			switch v := e.(type) {
			case *ast.Ident:
				return v.Name == recv || cfgVars[v.Name]
			case *ast.SelectorExpr:
				e = v.X
			case *ast.StarExpr:
				e = v.X
			case *ast.ParenExpr:
				e = v.X
			case *ast.IndexExpr:
				e = v.X
			case *ast.SliceExpr:
				e = v.X
			default:
				return false
			}
		}
	}
	// rootedAtGlobal: the expression designates (part of) a package-level variable: state shared by every
	// instance, so a write to it is a write whatever the receiver is
	rootedAtGlobal := func(e ast.Expr) bool {
		for {
			switch v := e.(type) {
			case *ast.Ident:
				obj, ok := info.Uses[v].(*types.Var)
				return ok && obj.Pkg() != nil && obj.Parent() == obj.Pkg().Scope()
			case *ast.SelectorExpr:
				e = v.X
			case *ast.StarExpr:
				e = v.X
			case *ast.ParenExpr:
				e = v.X
			case *ast.IndexExpr:
				e = v.X
			case *ast.SliceExpr:
				e = v.X
			default:
				return false
			}
		}
	}
	// handed: parameters of reference type (slice, map, pointer) and locals that alias (part of) the receiver or of a
	// parameter (`x, ok := r.ex.([]string)`, `x := r.field`): storage that belongs to the caller or to the instance.
	// A store through one of them (element, field, dereference) is a write like one through the receiver itself.
	handed := map[types.Object]bool{}
	isRef := func(t types.Type) bool {
		if t == nil {
			return false
		}
		switch t.Underlying().(type) {
		case *types.Slice, *types.Map, *types.Pointer:
			return true
		}
		return false
	}
	if fd.Type.Params != nil {
		for _, p := range fd.Type.Params.List {
			for _, n := range p.Names {
				if obj := info.Defs[n]; obj != nil && isRef(obj.Type()) {
					handed[obj] = true
				}
			}
		}
	}
	rootObj := func(e ast.Expr) (types.Object, bool) {
		deep := false
		for {
			switch v := e.(type) {
			case *ast.Ident:
				if o := info.Uses[v]; o != nil {
					return o, deep
				}
				return info.Defs[v], deep
			case *ast.SelectorExpr:
				e = v.X
			case *ast.StarExpr:
				e = v.X
			case *ast.ParenExpr:
				e = v.X
			case *ast.IndexExpr:
				e = v.X
			case *ast.SliceExpr:
				e = v.X
			case *ast.TypeAssertExpr:
				e = v.X
			default:
				return nil, false
			}
			deep = true
		}
	}
	aliasesHanded := func(e ast.Expr) bool {
		switch e.(type) {
		case *ast.TypeAssertExpr, *ast.SelectorExpr, *ast.IndexExpr, *ast.SliceExpr, *ast.StarExpr, *ast.Ident, *ast.ParenExpr:
		default:
			return false // a call, a literal, an operation: a fresh value
		}
		if !isRef(info.TypeOf(e)) {
			if ta, ok := e.(*ast.TypeAssertExpr); !ok || ta.Type == nil || !isRef(info.TypeOf(ta.Type)) {
				return false
			}
		}
		o, _ := rootObj(e)
		return o != nil && (handed[o] || rootedAtRecv(e))
	}
	ast.Inspect(fd.Body, func(n ast.Node) bool {
		switch v := n.(type) {
		case *ast.AssignStmt:
			for _, l := range v.Lhs {
				if rootedAtGlobal(l) {
					mf.Writes = true
				}
				if _, isID := l.(*ast.Ident); !isID {
					if o, deep := rootObj(l); deep && o != nil && handed[o] {
						mf.Writes = true
					}
				}
			}
			if len(v.Rhs) == 1 && len(v.Lhs) >= 1 {
				if id, ok := v.Lhs[0].(*ast.Ident); ok && aliasesHanded(v.Rhs[0]) {
					if o := info.Defs[id]; o != nil {
						handed[o] = true
					} else if o := info.Uses[id]; o != nil {
						handed[o] = true
					}
				}
			}
			// cfg, _ := r.config()  /  sc, _ := r.config()
			if len(v.Rhs) == 1 {
				if ce, ok := v.Rhs[0].(*ast.CallExpr); ok && selName(ce.Fun) == "config" {
					if id, ok := v.Lhs[0].(*ast.Ident); ok {
						cfgVars[id.Name] = true
					}
				}
			}
			for _, l := range v.Lhs {
				if id, ok := l.(*ast.Ident); ok && id.Name != recv {
					_ = id
					continue
				}
				if _, isID := l.(*ast.Ident); isID {
					continue // plain reassignment of the receiver variable copy
				}
				if rootedAtRecv(l) {
					mf.Writes = true
				}
			}
		case *ast.IncDecStmt:
			if _, isID := v.X.(*ast.Ident); !isID && rootedAtRecv(v.X) {
				mf.Writes = true
			}
			if _, isID := v.X.(*ast.Ident); !isID {
				if o, deep := rootObj(v.X); deep && o != nil && handed[o] {
					mf.Writes = true
				}
			}
			if rootedAtGlobal(v.X) {
				mf.Writes = true
			}
		case *ast.CallExpr:
			name := selName(v.Fun)
			switch name {
			case "IsInit", "isInit", "IsZero", "isZero", "IsEmpty":
				mf.InitGuard = true
			case "getState":
				mf.GetState = true
				if len(v.Args) == 1 && selName(v.Args[0]) == "ronly" {
					mf.RonlyGuard = true
				}
			case "setState":
				mf.UsesSetState = true
			case "lock":
				mf.Locks = true
				if firstLock == token.NoPos {
					firstLock = v.Pos()
				}
			case "ulen", "index", "len", "isFIFO", "isFull":
				if firstRead == token.NoPos {
					firstRead = v.Pos()
				}
			}
			if name != "" {
				calleeSet[name] = true
			}
		case *ast.IndexExpr:
			if rootedAtRecv(v.X) && firstRead == token.NoPos {
				firstRead = v.Pos()
			}
		case *ast.BinaryExpr:
			// `r == nil` / `r.stack == nil` / `r.condition == nil`
			if id, ok := v.Y.(*ast.Ident); ok && id.Name == "nil" && rootedAtRecv(v.X) {
				mf.InitGuard = true
			}
		}
		return true
	})
	// pure delegation: body is `return r.Other(args...)`
	if len(fd.Body.List) == 1 {
		if rs, ok := fd.Body.List[0].(*ast.ReturnStmt); ok && len(rs.Results) == 1 {
			if ce, ok := rs.Results[0].(*ast.CallExpr); ok {
				if se, ok := ce.Fun.(*ast.SelectorExpr); ok {
					if id, ok := se.X.(*ast.Ident); ok && id.Name == recv && ast.IsExported(se.Sel.Name) {
						mf.Delegates = se.Sel.Name
					}
				}
			}
		}
	}
	// ViaExported: the receiver identifier occurs only as `recv.Exported(...)`
	if recv != "" {
		uses, okUses := 0, 0
		callFuns := map[*ast.SelectorExpr]bool{}
		ast.Inspect(fd.Body, func(n ast.Node) bool {
			if ce, ok := n.(*ast.CallExpr); ok {
				if se, ok := ce.Fun.(*ast.SelectorExpr); ok {
					callFuns[se] = true
				}
			}
			return true
		})
		ast.Inspect(fd.Body, func(n ast.Node) bool {
			switch v := n.(type) {
			case *ast.SelectorExpr:
				if id, ok := v.X.(*ast.Ident); ok && id.Name == recv {
					uses++
					if callFuns[v] && ast.IsExported(v.Sel.Name) {
						okUses++
					}
					return false
				}
			case *ast.Ident:
				if v.Name == recv {
					uses++ // a bare use (passed on, dereferenced, compared ...)
				}
			}
			return true
		})
		mf.ViaExported = uses > 0 && uses == okUses
	}
	mf.LockFirst = mf.Locks && (firstRead == token.NoPos || firstLock < firstRead)
	for c := range calleeSet {
		mf.Callees = append(mf.Callees, c)
	}
	sort.Strings(mf.Callees)
}

func genFacts(fs []MethodFact) string {
	var b strings.Builder
	b.WriteString("/- GENERATED by /verif/extract from /repo — do not edit. -/\nnamespace Gen\n\n")
	b.WriteString("structure MFact where\n  recv : String\n  name : String\n  exported : Bool\n  ptrRecv : Bool\n  initGuard : Bool\n  ronlyGuard : Bool\n  delegates : String\n  usesSetState : Bool\n  writes : Bool\n  locks : Bool\n  lockFirst : Bool\n  reachWrite : Bool\n  reachLock : Bool\n  getState : Bool\n  viaExported : Bool\n  deriving Repr\n\n")
	b.WriteString("def facts : List MFact := [\n")
	for i, f := range fs {
		sep := ","
		if i == len(fs)-1 {
			sep = ""
		}
		fmt.Fprintf(&b, "  ⟨%q, %q, %v, %v, %v, %v, %q, %v, %v, %v, %v, %v, %v, %v, %v⟩%s\n", f.Recv, f.Name, f.Exported, f.PtrRecv,
			f.InitGuard, f.RonlyGuard, f.Delegates, f.UsesSetState, f.Writes, f.Locks, f.LockFirst, f.ReachWrite, f.ReachLock, f.GetState, f.ViaExported, sep)
	}
	b.WriteString("]\n\nend Gen\n")
	return b.String()
}
