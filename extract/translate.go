package main

// A deliberately tiny Go -> Lean translator for straight-line scalar code.
//
// Supported: int / bool / small unsigned (cfgFlag, stackType, ...) values;
// if/else (with init), switch on constants, return, assignments, ++, --,
// `+ - *` (with explicit 64-bit wrap-around on int), comparisons, && || !,
// & | &^ on unsigned flags. Receiver reads are bound to parameters through a
// fixed table. Everything else: fail loudly.

import (
	"fmt"
	"go/ast"
	"go/token"
	"go/types"
	"sort"
	"strings"
)

type ltype int

const (
	tInt ltype = iota
	tBool
	tNat
)

func (t ltype) String() string { return [...]string{"Int", "Bool", "Nat"}[t] }

func leanType(t types.Type) (ltype, bool) {
	switch u := t.Underlying().(type) {
	case *types.Basic:
		switch {
		case u.Info()&types.IsBoolean != 0:
			return tBool, true
		case u.Info()&types.IsUnsigned != 0:
			return tNat, true
		case u.Info()&types.IsInteger != 0:
			return tInt, true
		}
	}
	return 0, false
}

// Env fields known to the Lean side (Stackage/Basic.lean `structure Env`).
var envInt = map[string]bool{"ulen": true, "cap": true, "len": true, "dulen": true, "dcap": true, "dlen": true,
	"i": true, "j": true, "left": true, "u1": true, "L": true, "before": true, "start": true, "max": true, "ct": true,
	"last": true, "idx": true, "index": true, "len_data": true, "len_tpat": true, "len_spat": true, "preserved": true, "l": true}
var envBool = map[string]bool{"negidx": true, "fwdidx": true, "ok": true, "init": true, "found": true, "fail": true,
	"slice_nonnil": true, "r_nonnil": true, "err_nonnil": true, "x_nonnil": true, "nnest": true, "ronly": true, "fifo": true}
var envNat = map[string]bool{"assert": true, "opt": true, "x": false}

type xl struct {
	where   string
	recv    string
	useEnv  bool              // free variables come from `env : Env`
	locals  map[string]ltype  // variables bound by let / parameters
	extra   []string          // extra parameters (whole-function mode), in order
	extraTy map[string]ltype
	variadic string           // name of a variadic int parameter, if any
	rename   map[*types.Var]string // canonical names by declaration position (canon.go)
	subst    map[string]string     // while inlining a helper: parameter name -> translated argument
	substTy  map[string]ltype
}

// canonical name of an identifier (renamed by declaration position when a table exists)
func (x *xl) canon(id *ast.Ident) string {
	if x.rename != nil {
		if obj, ok := info.Uses[id].(*types.Var); ok {
			if n, ok := x.rename[obj]; ok {
				return n
			}
		}
		if obj, ok := info.Defs[id].(*types.Var); ok {
			if n, ok := x.rename[obj]; ok {
				return n
			}
		}
	}
	return id.Name
}

func (x *xl) fail(n ast.Node, f string, a ...any) {
	die("%s: %s: %s", x.where, fset.Position(n.Pos()), fmt.Sprintf(f, a...))
}

func (x *xl) free(name string, t ltype, n ast.Node) string {
	if x.useEnv {
		ok := false
		switch t {
		case tInt:
			ok = envInt[name]
		case tBool:
			ok = envBool[name]
		case tNat:
			ok = envNat[name]
		}
		if !ok {
			x.fail(n, "no Env binding for %s : %s", name, t)
		}
		return "env." + name
	}
	if _, ok := x.extraTy[name]; !ok {
		x.extraTy[name] = t
		x.extra = append(x.extra, name)
	}
	return name
}

func envHas(name string, t ltype) bool {
	switch t {
	case tInt:
		return envInt[name]
	case tBool:
		return envBool[name]
	case tNat:
		return envNat[name]
	}
	return false
}

// definingCall: the right-hand side of the single `v := recv.method()` that defines obj (nil if there is none, or if v is assigned again)
func definingCall(obj types.Object) ast.Expr {
	if obj == nil {
		return nil
	}
	var def ast.Expr
	n := 0
	for _, f := range files {
		ast.Inspect(f, func(nd ast.Node) bool {
			as, ok := nd.(*ast.AssignStmt)
			if !ok {
				return true
			}
			for i, l := range as.Lhs {
				id, ok := l.(*ast.Ident)
				if !ok {
					continue
				}
				if info.Defs[id] == obj || info.Uses[id] == obj {
					n++
					if as.Tok == token.DEFINE && len(as.Lhs) == 1 && len(as.Rhs) == 1 && i == 0 {
						if ce, ok := as.Rhs[0].(*ast.CallExpr); ok {
							if se, ok := ce.Fun.(*ast.SelectorExpr); ok {
								if _, isRecv := recvPrefix(se.X); isRecv && len(ce.Args) == 0 {
									def = as.Rhs[0]
								}
							}
						}
					}
				}
			}
			return true
		})
	}
	if n != 1 {
		return nil
	}
	return def
}

func recvPrefix(e ast.Expr) (string, bool) {
	// r.ulen(), r.stack.ulen(), dest.cap() ...
	for {
		switch v := e.(type) {
		case *ast.Ident:
			if v.Name == "dest" {
				return "d", true
			}
			return "", true
		case *ast.SelectorExpr:
			e = v.X
		default:
			return "", false
		}
	}
}

func (x *xl) expr(e ast.Expr) (string, ltype) {
	switch v := e.(type) {
	case *ast.ParenExpr:
		s, t := x.expr(v.X)
		return "(" + s + ")", t
	case *ast.BasicLit:
		if v.Kind == token.INT {
			t := tInt
			if tt := info.TypeOf(e); tt != nil {
				if lt, ok := leanType(tt); ok {
					t = lt
				}
			}
			if t == tNat {
				return v.Value, tNat
			}
			return "(" + v.Value + " : Int)", tInt
		}
		x.fail(e, "unsupported literal %s", v.Value)
	case *ast.Ident:
		switch v.Name {
		case "true", "false":
			return v.Name, tBool
		}
		if obj := info.Uses[v]; obj != nil {
			if c, ok := obj.(*types.Const); ok && c.Parent() == pkg.Scope() {
				t, ok := leanType(c.Type())
				if !ok {
					x.fail(e, "constant %s has unsupported type", v.Name)
				}
				val, ok := constVal(v.Name)
				if !ok {
					x.fail(e, "constant %s", v.Name)
				}
				if t == tInt {
					return fmt.Sprintf("(%d : Int)", val), tInt
				}
				return fmt.Sprintf("%d", val), t
			}
		}
		if sv, ok := x.subst[v.Name]; ok {
			return sv, x.substTy[v.Name]
		}
		name := x.canon(v)
		if t, ok := x.locals[name]; ok {
			return name, t
		}
		tt := info.TypeOf(e)
		if tt == nil {
			x.fail(e, "untyped identifier %s", v.Name)
		}
		t, ok := leanType(tt)
		if !ok {
			x.fail(e, "identifier %s has unsupported type %s", v.Name, tt)
		}
		if x.useEnv && !envHas(name, t) {
			// a local the environment does not know: if it is defined once, by a call on the receiver (`n := r.ulen()`: a
			// hoisted read), it stands for that call
			if rhs := definingCall(info.Uses[v]); rhs != nil {
				return x.expr(rhs)
			}
		}
		return x.free(name, t, e), t
	case *ast.UnaryExpr:
		s, t := x.expr(v.X)
		switch v.Op {
		case token.NOT:
			return "(!" + s + ")", tBool
		case token.SUB:
			if t != tInt {
				x.fail(e, "negation of non-int")
			}
			if lit, ok := v.X.(*ast.BasicLit); ok {
				return "(-" + lit.Value + " : Int)", tInt
			}
			return "(wrap64 (-" + s + "))", tInt
		}
		x.fail(e, "unsupported unary %s", v.Op)
	case *ast.StarExpr:
		// *r for a scalar pointer receiver
		if id, ok := v.X.(*ast.Ident); ok && id.Name == x.recv {
			if t, ok := x.locals[id.Name]; ok {
				return id.Name, t
			}
		}
		x.fail(e, "unsupported dereference")
	case *ast.BinaryExpr:
		// nil comparisons become boolean bindings
		if id, ok := v.Y.(*ast.Ident); ok && id.Name == "nil" {
			if lhs, ok := v.X.(*ast.Ident); ok {
				nm := x.free(x.canon(lhs)+"_nonnil", tBool, e)
				if v.Op == token.NEQ {
					return nm, tBool
				} else if v.Op == token.EQL {
					return "(!" + nm + ")", tBool
				}
			}
			x.fail(e, "unsupported nil comparison")
		}
		a, ta := x.expr(v.X)
		b, tb := x.expr(v.Y)
		if ta != tb {
			x.fail(e, "operand types differ (%s vs %s)", ta, tb)
		}
		switch v.Op {
		case token.ADD, token.SUB, token.MUL:
			op := map[token.Token]string{token.ADD: "+", token.SUB: "-", token.MUL: "*"}[v.Op]
			if ta == tInt {
				return fmt.Sprintf("(wrap64 (%s %s %s))", a, op, b), tInt
			}
			x.fail(e, "arithmetic on %s unsupported", ta)
		case token.LSS, token.LEQ, token.GTR, token.GEQ:
			op := map[token.Token]string{token.LSS: "<", token.LEQ: "≤", token.GTR: ">", token.GEQ: "≥"}[v.Op]
			return fmt.Sprintf("(decide (%s %s %s))", a, op, b), tBool
		case token.EQL:
			return fmt.Sprintf("(%s == %s)", a, b), tBool
		case token.NEQ:
			return fmt.Sprintf("(%s != %s)", a, b), tBool
		case token.LAND:
			return fmt.Sprintf("(%s && %s)", a, b), tBool
		case token.LOR:
			return fmt.Sprintf("(%s || %s)", a, b), tBool
		case token.AND:
			if ta == tNat {
				return fmt.Sprintf("(%s &&& %s)", a, b), tNat
			}
		case token.OR:
			if ta == tNat {
				return fmt.Sprintf("(%s ||| %s)", a, b), tNat
			}
		case token.AND_NOT:
			if ta == tNat {
				return fmt.Sprintf("(andNot %s %s)", a, b), tNat
			}
		case token.XOR:
			if ta == tNat {
				return fmt.Sprintf("(%s ^^^ %s)", a, b), tNat
			}
		}
		x.fail(e, "unsupported binary %s on %s", v.Op, ta)
	case *ast.IndexExpr:
		if id, ok := v.X.(*ast.Ident); ok && id.Name == x.variadic {
			if lit, ok := v.Index.(*ast.BasicLit); ok && lit.Value == "0" {
				return x.free(id.Name+"0", tInt, e), tInt
			}
		}
		x.fail(e, "unsupported index expression")
	case *ast.CallExpr:
		name := selName(v.Fun)
		// conversions int(x), cfgFlag(x)...
		if tv, ok := info.Types[v.Fun]; ok && tv.IsType() && len(v.Args) == 1 {
			s, ts := x.expr(v.Args[0])
			tt, ok := leanType(tv.Type)
			if !ok {
				x.fail(e, "unsupported conversion")
			}
			if ts == tt {
				return s, tt
			}
			if ts == tNat && tt == tInt {
				return "(Int.ofNat " + s + ")", tInt
			}
			x.fail(e, "unsupported conversion %s -> %s", ts, tt)
		}
		if id, ok := v.Fun.(*ast.Ident); ok && id.Name == "len" && len(v.Args) == 1 {
			if a, ok := v.Args[0].(*ast.Ident); ok {
				if a.Name == x.variadic {
					return x.free(a.Name+"Len", tInt, e), tInt
				}
				return x.free("len_"+a.Name, tInt, e), tInt
			}
			if st, ok := v.Args[0].(*ast.StarExpr); ok {
				if a, ok := st.X.(*ast.Ident); ok && a.Name == x.recv {
					return x.free("len", tInt, e), tInt
				}
			}
			x.fail(e, "unsupported len()")
		}
		if se, ok := v.Fun.(*ast.SelectorExpr); ok {
			pre, isRecv := recvPrefix(se.X)
			if isRecv {
				switch name {
				case "ulen", "cap", "len":
					if len(v.Args) == 0 {
						return x.free(pre+name, tInt, e), tInt
					}
				case "positive", "getState":
					if len(v.Args) == 1 {
						if x.locals[x.recv] == tNat && name == "positive" {
							// cfgFlag.positive on the scalar receiver itself
							a, _ := x.expr(v.Args[0])
							return fmt.Sprintf("(Gen.cfgFlag_positive %s %s)", x.recv, a), tBool
						}
						if fl, ok := v.Args[0].(*ast.Ident); ok {
							return x.free(pre+fl.Name, tBool, e), tBool
						}
					}
				case "IsInit", "isInit":
					return x.free(pre+"init", tBool, e), tBool
				case "isFIFO", "IsFIFO":
					return x.free(pre+"fifo", tBool, e), tBool
				}
			}
		}
		// calls to small pure helpers of the package whose body is a single `return <expr>`: inline
		if s, t, ok := x.inlineHelper(v); ok {
			return s, t
		}
		// calls to other translated pure functions
		if id, ok := v.Fun.(*ast.Ident); ok {
			if _, ok := wholeFuncs[id.Name]; ok {
				var as []string
				for _, a := range v.Args {
					s, _ := x.expr(a)
					as = append(as, s)
				}
				rt, _ := leanType(info.TypeOf(e))
				return fmt.Sprintf("(Gen.%s %s)", id.Name, strings.Join(as, " ")), rt
			}
		}
		x.fail(e, "unsupported call %s", name)
	}
	x.fail(e, "unsupported expression %T", e)
	return "", 0
}

// inlineHelper translates a call to a package function/method whose body is `return <expr>`
// by translating that expression with the parameters bound to the translated arguments.
func (x *xl) inlineHelper(call *ast.CallExpr) (string, ltype, bool) {
	var fd *ast.FuncDecl
	switch f := call.Fun.(type) {
	case *ast.Ident:
		fd = funcs[f.Name]
	case *ast.SelectorExpr:
		if _, isRecv := recvPrefix(f.X); isRecv {
			for _, rn := range []string{"stack", "Stack", "condition", "Condition", "nodeConfig"} {
				if d := funcs[rn+"."+f.Sel.Name]; d != nil {
					fd = d
					break
				}
			}
		}
	}
	if fd == nil || fd.Body == nil || len(fd.Body.List) != 1 {
		return "", 0, false
	}
	rs, ok := fd.Body.List[0].(*ast.ReturnStmt)
	if !ok || len(rs.Results) != 1 {
		return "", 0, false
	}
	if _, known := wholeFuncs[fkey(fd)]; known {
		return "", 0, false
	}
	var params []string
	for _, p := range fd.Type.Params.List {
		for _, n := range p.Names {
			params = append(params, n.Name)
		}
	}
	if len(params) != len(call.Args) {
		return "", 0, false
	}
	saveS, saveT, saveR, saveRecv := x.subst, x.substTy, x.rename, x.recv
	ns, nt := map[string]string{}, map[string]ltype{}
	for i, a := range call.Args {
		s, t := x.expr(a)
		ns[params[i]], nt[params[i]] = s, t
	}
	x.subst, x.substTy, x.rename = ns, nt, nil
	if fd.Recv != nil && len(fd.Recv.List[0].Names) > 0 {
		x.recv = fd.Recv.List[0].Names[0].Name
	}
	s, t := x.expr(rs.Results[0])
	x.subst, x.substTy, x.rename, x.recv = saveS, saveT, saveR, saveRecv
	return "(" + s + ")", t, true
}

// ---------------------------------------------------------------------------
// statements, continuation style

type results struct {
	names []string
	types []ltype
}

func (r results) tuple() string {
	if len(r.names) == 1 {
		return r.names[0]
	}
	return "(" + strings.Join(r.names, ", ") + ")"
}

func (x *xl) bind(name string, t ltype) { x.locals[name] = t }

func zero(t ltype) string {
	switch t {
	case tBool:
		return "false"
	case tNat:
		return "0"
	}
	return "(0 : Int)"
}

func (x *xl) stmts(list []ast.Stmt, res results, ind string) string {
	if len(list) == 0 {
		return ind + res.tuple()
	}
	s, rest := list[0], list[1:]
	// snapshot locals so that branch-local lets do not leak
	switch v := s.(type) {
	case *ast.ReturnStmt:
		if len(v.Results) == 0 {
			return ind + res.tuple()
		}
		var rs []string
		for _, e := range v.Results {
			t, _ := x.expr(e)
			rs = append(rs, t)
		}
		if len(rs) == 1 {
			return ind + rs[0]
		}
		return ind + "(" + strings.Join(rs, ", ") + ")"
	case *ast.DeclStmt:
		gd := v.Decl.(*ast.GenDecl)
		out := ""
		for _, sp := range gd.Specs {
			vs := sp.(*ast.ValueSpec)
			for i, n := range vs.Names {
				tt := info.TypeOf(n)
				if tt == nil {
					tt = info.Defs[n].Type()
				}
				t, ok := leanType(tt)
				if !ok {
					x.fail(s, "unsupported variable type")
				}
				val := zero(t)
				if i < len(vs.Values) {
					val, _ = x.expr(vs.Values[i])
				}
				out += fmt.Sprintf("%slet %s : %s := %s\n", ind, n.Name, t, val)
				x.bind(n.Name, t)
			}
		}
		return out + x.stmts(rest, res, ind)
	case *ast.AssignStmt:
		return x.assign(v, ind) + x.stmts(rest, res, ind)
	case *ast.IncDecStmt:
		id, ok := v.X.(*ast.Ident)
		if !ok {
			x.fail(s, "unsupported ++/--")
		}
		cur, _ := x.expr(id)
		op := "+"
		if v.Tok == token.DEC {
			op = "-"
		}
		x.bind(id.Name, tInt)
		return fmt.Sprintf("%slet %s : Int := wrap64 (%s %s 1)\n", ind, id.Name, cur, op) + x.stmts(rest, res, ind)
	case *ast.ExprStmt:
		// r.shift(x) / r.unshift(x) on a scalar pointer receiver
		if ce, ok := v.X.(*ast.CallExpr); ok {
			if se, ok := ce.Fun.(*ast.SelectorExpr); ok {
				if id, ok := se.X.(*ast.Ident); ok && id.Name == x.recv && x.locals[x.recv] == tNat && len(ce.Args) == 1 {
					a, _ := x.expr(ce.Args[0])
					return fmt.Sprintf("%slet %s : Nat := Gen.cfgFlag_%s %s %s\n", ind, x.recv, se.Sel.Name, x.recv, a) + x.stmts(rest, res, ind)
				}
				if se.Sel.Name == "lock" || se.Sel.Name == "unlock" {
					return x.stmts(rest, res, ind)
				}
			}
		}
		x.fail(s, "unsupported expression statement")
	case *ast.DeferStmt:
		if selName(v.Call.Fun) == "unlock" {
			return x.stmts(rest, res, ind)
		}
		x.fail(s, "unsupported defer")
	case *ast.BlockStmt:
		return x.stmts(append(append([]ast.Stmt{}, v.List...), rest...), res, ind)
	case *ast.IfStmt:
		pre := ""
		saved := x.copyLocals()
		if v.Init != nil {
			as, ok := v.Init.(*ast.AssignStmt)
			if !ok {
				x.fail(s, "unsupported if-init")
			}
			pre = x.assign(as, ind)
		}
		c, _ := x.expr(v.Cond)
		afterInit := x.copyLocals()
		thenList := append(append([]ast.Stmt{}, v.Body.List...), rest...)
		thenS := x.stmts(thenList, res, ind+"  ")
		x.locals = copyMap(afterInit)
		var elseList []ast.Stmt
		if v.Else != nil {
			elseList = append(elseList, v.Else)
		}
		elseList = append(elseList, rest...)
		elseS := x.stmts(elseList, res, ind+"  ")
		x.locals = saved
		return fmt.Sprintf("%s%sif %s then\n%s\n%selse\n%s", pre, ind, c, thenS, ind, elseS)
	case *ast.SwitchStmt:
		pre := ""
		saved := x.copyLocals()
		if v.Init != nil {
			as, ok := v.Init.(*ast.AssignStmt)
			if !ok {
				x.fail(s, "unsupported switch-init")
			}
			pre = x.assign(as, ind)
		}
		if v.Tag == nil {
			x.fail(s, "tagless switch unsupported")
		}
		tag, _ := x.expr(v.Tag)
		afterInit := x.copyLocals()
		out := pre
		var deflt []ast.Stmt
		hasDefault := false
		depth := 0
		for _, c := range v.Body.List {
			cc := c.(*ast.CaseClause)
			if cc.List == nil {
				deflt = cc.Body
				hasDefault = true
				continue
			}
			var conds []string
			for _, e := range cc.List {
				es, _ := x.expr(e)
				conds = append(conds, fmt.Sprintf("(%s == %s)", tag, es))
			}
			x.locals = copyMap(afterInit)
			body := x.stmts(append(append([]ast.Stmt{}, cc.Body...), rest...), res, ind+"  ")
			out += fmt.Sprintf("%sif %s then\n%s\n%selse\n", ind, strings.Join(conds, " || "), body, ind)
			depth++
		}
		_ = hasDefault
		x.locals = copyMap(afterInit)
		out += x.stmts(append(append([]ast.Stmt{}, deflt...), rest...), res, ind+"  ")
		x.locals = saved
		return out
	}
	x.fail(s, "unsupported statement %T", s)
	return ""
}

func copyMap(m map[string]ltype) map[string]ltype {
	r := map[string]ltype{}
	for k, v := range m {
		r[k] = v
	}
	return r
}
func (x *xl) copyLocals() map[string]ltype { return copyMap(x.locals) }

func (x *xl) assign(as *ast.AssignStmt, ind string) string {
	if len(as.Lhs) != 1 || len(as.Rhs) != 1 {
		x.fail(as, "unsupported multi-assignment")
	}
	var name string
	switch l := as.Lhs[0].(type) {
	case *ast.Ident:
		name = x.canon(l)
	case *ast.StarExpr:
		id, ok := l.X.(*ast.Ident)
		if !ok || id.Name != x.recv {
			x.fail(as, "unsupported assignment target")
		}
		name = id.Name
	default:
		x.fail(as, "unsupported assignment target")
	}
	var rhs string
	var t ltype
	// compound assignments are the binary expression `lhs op rhs` assigned back (x op= y  ==  x = x op y)
	compound := map[token.Token]token.Token{token.ADD_ASSIGN: token.ADD, token.SUB_ASSIGN: token.SUB, token.MUL_ASSIGN: token.MUL,
		token.OR_ASSIGN: token.OR, token.AND_ASSIGN: token.AND, token.AND_NOT_ASSIGN: token.AND_NOT, token.XOR_ASSIGN: token.XOR}
	switch as.Tok {
	case token.ASSIGN, token.DEFINE:
		rhs, t = x.expr(as.Rhs[0])
	default:
		op, ok := compound[as.Tok]
		if !ok {
			x.fail(as, "unsupported assignment operator %s", as.Tok)
		}
		rhs, t = x.expr(&ast.BinaryExpr{X: as.Lhs[0], OpPos: as.TokPos, Op: op, Y: as.Rhs[0]})
	}
	x.bind(name, t)
	return fmt.Sprintf("%slet %s : %s := %s\n", ind, name, t, rhs)
}

// ---------------------------------------------------------------------------
// whole functions

var wholeFuncs = map[string]string{ // Go key -> Lean name
	"factorNegIndex":      "factorNegIndex",
	"stack.ulen":          "ulen",
	"stack.isFull":        "isFull",
	"capLenEqual":         "capLenEqual",
	"calculateDefragMax":  "calculateDefragMax",
	"Stack.Cap":           "Cap",
	"Stack.Avail":         "Avail",
	"cfgFlag.positive":    "cfgFlag_positive",
	"cfgFlag.shift":       "cfgFlag_shift",
	"cfgFlag.unshift":     "cfgFlag_unshift",
	"cfgFlag.toggle":      "cfgFlag_toggle",
}

var wholeOrder = []string{"cfgFlag.positive", "cfgFlag.shift", "cfgFlag.unshift", "cfgFlag.toggle",
	"factorNegIndex", "stack.ulen", "stack.isFull", "capLenEqual", "calculateDefragMax", "Stack.Cap", "Stack.Avail"}

func init() {
	// allow calls by bare Go name
	wholeFuncs["factorNegIndex"] = "factorNegIndex"
}

func genFuncs() string {
	var b strings.Builder
	b.WriteString("/- GENERATED by /verif/extract from /repo — do not edit. -/\nimport Stackage.Basic\nset_option linter.unusedVariables false\nnamespace Gen\n\n")
	for _, key := range wholeOrder {
		fd := funcs[key]
		if fd == nil {
			die("function %s not found", key)
		}
		x := &xl{where: key, locals: map[string]ltype{}, extraTy: map[string]ltype{}}
		var params []string
		scalarRecv := false
		if fd.Recv != nil && len(fd.Recv.List[0].Names) > 0 {
			x.recv = fd.Recv.List[0].Names[0].Name
			rt := info.TypeOf(fd.Recv.List[0].Type)
			if p, ok := rt.(*types.Pointer); ok {
				rt = p.Elem()
			}
			if t, ok := leanType(rt); ok {
				scalarRecv = true
				x.bind(x.recv, t)
				params = append(params, fmt.Sprintf("(%s : %s)", x.recv, t))
			}
		}
		for _, p := range fd.Type.Params.List {
			if _, isVar := p.Type.(*ast.Ellipsis); isVar {
				x.variadic = p.Names[0].Name
				continue
			}
			t, ok := leanType(info.TypeOf(p.Type))
			if !ok {
				die("%s: unsupported parameter type", key)
			}
			for _, n := range p.Names {
				x.bind(n.Name, t)
				params = append(params, fmt.Sprintf("(%s : %s)", n.Name, t))
			}
		}
		var res results
		pre := ""
		if fd.Type.Results != nil {
			for _, r := range fd.Type.Results.List {
				t, ok := leanType(info.TypeOf(r.Type))
				if !ok {
					die("%s: unsupported result type", key)
				}
				if len(r.Names) == 0 {
					res.names = append(res.names, "_unnamed")
					res.types = append(res.types, t)
					continue
				}
				for _, n := range r.Names {
					res.names = append(res.names, n.Name)
					res.types = append(res.types, t)
					x.bind(n.Name, t)
					pre += fmt.Sprintf("  let %s : %s := %s\n", n.Name, t, zero(t))
				}
			}
		} else if scalarRecv && recvIsPtr(fd) {
			// mutating scalar method: result is the new receiver value
			res.names = []string{x.recv}
			res.types = []ltype{x.locals[x.recv]}
		} else {
			die("%s: no results", key)
		}
		body := x.stmts(fd.Body.List, res, "  ")
		var rts []string
		for _, t := range res.types {
			rts = append(rts, t.String())
		}
		for _, e := range x.extra {
			params = append(params, fmt.Sprintf("(%s : %s)", e, x.extraTy[e]))
		}
		fmt.Fprintf(&b, "/-- from Go `%s` (%s) -/\ndef %s %s : %s :=\n%s%s\n\n", key, posOf(fd), wholeFuncs[key],
			strings.Join(params, " "), strings.Join(rts, " × "), pre, body)
	}
	b.WriteString("end Gen\n")
	return b.String()
}

func posOf(n ast.Node) string {
	p := fset.Position(n.Pos())
	i := strings.LastIndex(p.Filename, "/")
	return p.Filename[i+1:]
}

// ---------------------------------------------------------------------------
// guard conditions

type condSite struct {
	fn   string // Go function key
	kind string // "if" or "assign:<var>"
	k    int    // k-th occurrence in source order
	name string // Lean name
}

// polarisedDef: `Gen.<site>` is the extracted expression or its negation, whichever agrees with the site's expected meaning
// (lean/Stackage/GenRef.lean) on the sample environments; the GenSem lemma of the site proves the rest
func polarisedDef(name string) string {
	return fmt.Sprintf("/-- does `%s_raw` have the polarity of `GenRef.%s` (or is it the negated test)? a closed constant -/\ndef %s_same : Bool := GenRef.agrees GenRef.%s %s_raw\ndef %s (env : Env) : Bool := GenRef.polarised %s_same %s_raw env\n", name, name, name, name, name, name, name, name)
}

// usesCanon: the canonical (Env) name of the variable a "uses:<type>" site looks at
var usesCanon = map[string]string{"ComparisonOperator": "assert"}

// splitAnd splits a condition on its top-level `&&`
func splitAnd(e ast.Expr) []ast.Expr {
	if p, ok := e.(*ast.ParenExpr); ok {
		return splitAnd(p.X)
	}
	if b, ok := e.(*ast.BinaryExpr); ok && b.Op == token.LAND {
		return append(splitAnd(b.X), splitAnd(b.Y)...)
	}
	return []ast.Expr{e}
}

var condSites = []condSite{
	{"stack.index", "if+", 0, "index_nonempty"}, // "if+": the main path lies inside; written as a guard clause (`if c { return }`) it is the negation
	{"stack.index", "if", 1, "index_isneg"},
	{"stack.index", "if", 2, "index_negok"},
	{"stack.index", "if", 3, "index_isover"},
	{"stack.index", "if", 4, "index_fwdok"},
	{"stack.swap", "exit", 0, "swap_reject"},
	{"stack.replace", "if+", 1, "replace_ok"},
	{"stack.insert", "if", 0, "insert_full"},
	{"stack.insert", "if", 1, "insert_append"},
	{"stack.insert", "if", 2, "insert_front"},
	{"stack.insert", "assign:ok", 0, "insert_ok_append"},
	{"stack.remove", "assign:ok", 0, "remove_ok"},
	{"stack.transfer", "atom", 0, "transfer_hascap"}, // "atom": k-th condition after splitting `a && b` (nested ifs and a merged guard are the same)
	{"stack.transfer", "atom", 1, "transfer_nofit"},
	{"stack.transfer", "assign:ok", 0, "transfer_ok"},
	{"stack.defrag", "if+", 2, "defrag_go"},
	{"stack.defrag", "if", 3, "defrag_trunc"},
	{"stack.implode", "loopexit", 0, "implode_stop"},
	{"stack.verifyImplode", "assign:last", 1, "implode_last"},
	{"Condition.Valid", "uses:ComparisonOperator", 0, "cond_op_bogus"}, // the condition that looks at a value of that type
}

func genConds() string {
	var b strings.Builder
	b.WriteString("/- GENERATED by /verif/extract from /repo — do not edit. -/\nimport Stackage.Basic\nimport Stackage.GenRef\nimport Stackage.Gen.Funcs\nnamespace Gen\n\n")
	for _, cs := range condSites {
		fd := funcs[cs.fn]
		if fd == nil {
			die("function %s not found", cs.fn)
		}
		x := &xl{where: cs.fn + "/" + cs.name, useEnv: true, locals: map[string]ltype{}, extraTy: map[string]ltype{}, rename: renameMap(cs.fn, fd)}
		if fd.Recv != nil && len(fd.Recv.List[0].Names) > 0 {
			x.recv = fd.Recv.List[0].Names[0].Name
		}
		var found ast.Expr
		initLet := ""
		n := 0
		var ifs []*ast.IfStmt
		type branch struct {
			pos   token.Pos
			cond  ast.Expr
			init  ast.Stmt
			guard bool // `if cond { return }` without else
		}
		var branches []branch
		ifKind := cs.kind == "if" || cs.kind == "if+" || cs.kind == "atom" || strings.HasPrefix(cs.kind, "uses:")
		negate := false
		ast.Inspect(fd.Body, func(nd ast.Node) bool {
			if found != nil {
				return false
			}
			switch v := nd.(type) {
			case *ast.IfStmt:
				if ifKind {
					ifs = append(ifs, v)
					bare := v.Else == nil && len(v.Body.List) == 1
					if bare {
						rs, isRet := v.Body.List[0].(*ast.ReturnStmt)
						bare = isRet && len(rs.Results) == 0
					}
					if cs.kind == "atom" {
						for _, a := range splitAnd(v.Cond) {
							branches = append(branches, branch{a.Pos(), a, v.Init, false})
						}
					} else {
						branches = append(branches, branch{v.Cond.Pos(), v.Cond, v.Init, bare})
					}
				}
			case *ast.SwitchStmt:
				// a tagless switch is an if / else-if chain
				if ifKind && v.Tag == nil {
					for _, c := range v.Body.List {
						cc := c.(*ast.CaseClause)
						if len(cc.List) == 1 {
							branches = append(branches, branch{cc.List[0].Pos(), cc.List[0], v.Init, false})
						}
					}
				}
			case *ast.AssignStmt:
				if strings.HasPrefix(cs.kind, "assign:") && len(v.Lhs) == 1 && len(v.Rhs) == 1 && v.Tok == token.ASSIGN {
					if id, ok := v.Lhs[0].(*ast.Ident); ok && x.canon(id) == strings.TrimPrefix(cs.kind, "assign:") {
						// skip assignments that are the init of an if (they are reached through the if)
						if n == cs.k {
							found = v.Rhs[0]
						}
						n++
					}
				}
			}
			return true
		})
		if cs.kind == "loopexit" {
			// the exit condition of the k-th `for` of the function: the negation of its condition, or - for a bare
			// `for {` - the condition of a leading `if … { break }`
			var loops []*ast.ForStmt
			ast.Inspect(fd.Body, func(nd ast.Node) bool {
				if f, ok := nd.(*ast.ForStmt); ok {
					loops = append(loops, f)
				}
				return true
			})
			if cs.k >= len(loops) {
				die("%s: loop #%d not found for site %s", cs.fn, cs.k, cs.name)
			}
			f := loops[cs.k]
			var c string
			if f.Cond != nil {
				e, _ := x.expr(f.Cond)
				c = "(!" + e + ")"
			} else {
				ok := false
				if len(f.Body.List) > 0 {
					if is, isIf := f.Body.List[0].(*ast.IfStmt); isIf && is.Init == nil && len(is.Body.List) == 1 {
						if br, isBr := is.Body.List[0].(*ast.BranchStmt); isBr && br.Tok == token.BREAK {
							c, _ = x.expr(is.Cond)
							ok = true
						}
					}
				}
				if !ok {
					die("%s: loop #%d has no recognisable exit condition (site %s)", cs.fn, cs.k, cs.name)
				}
			}
			fmt.Fprintf(&b, "/-- from Go `%s` (%s): the loop's exit condition -/\ndef %s_raw (env : Env) : Bool := %s\n%s\n", cs.fn, posOf(fd), cs.name, c, polarisedDef(cs.name))
			continue
		}
		if cs.kind == "exit" {
			// the disjunction of the conditions of every branch whose body just returns
			var parts []string
			ast.Inspect(fd.Body, func(nd ast.Node) bool {
				v, ok := nd.(*ast.IfStmt)
				if !ok || len(v.Body.List) != 1 {
					return true
				}
				if rs, ok := v.Body.List[0].(*ast.ReturnStmt); !ok || len(rs.Results) != 0 {
					return true
				}
				pre := ""
				if v.Init != nil {
					as, ok := v.Init.(*ast.AssignStmt)
					if !ok {
						die("%s: unsupported if-init at site %s", cs.fn, cs.name)
					}
					pre = strings.TrimSuffix(x.assign(as, ""), "\n") + "; "
				}
				c, _ := x.expr(v.Cond)
				parts = append(parts, "("+pre+c+")")
				return true
			})
			if len(parts) == 0 {
				die("%s: no early-return branch for site %s", cs.fn, cs.name)
			}
			fmt.Fprintf(&b, "/-- from Go `%s` (%s): some early-return guard fires -/\ndef %s_raw (env : Env) : Bool := %s\n%s\n", cs.fn, posOf(fd), cs.name, strings.Join(parts, " || "), polarisedDef(cs.name))
			continue
		}
		if strings.HasPrefix(cs.kind, "uses:") {
			// keep the conditions that mention a variable of the named type
			tn := strings.TrimPrefix(cs.kind, "uses:")
			var keep []branch
			for _, br := range branches {
				uses := false
				inInit := false
				if br.init != nil {
					// `if code := int(assert); code < 1 || 6 < code {`: the value is looked at through a local of the if's own
					ast.Inspect(br.init, func(m ast.Node) bool {
						if id, ok := m.(*ast.Ident); ok {
							if obj, ok := info.Uses[id].(*types.Var); ok {
								if nt, ok := obj.Type().(*types.Named); ok && nt.Obj().Name() == tn {
									if as, ok := br.init.(*ast.AssignStmt); ok && len(as.Lhs) == 1 {
										uses, inInit = true, true
										if x.rename == nil {
											x.rename = map[*types.Var]string{}
										}
										x.rename[obj] = usesCanon[tn]
									}
								}
							}
						}
						return true
					})
				}
				ast.Inspect(br.cond, func(m ast.Node) bool {
					if id, ok := m.(*ast.Ident); ok {
						if obj, ok := info.Uses[id].(*types.Var); ok {
							if nt, ok := obj.Type().(*types.Named); ok && nt.Obj().Name() == tn {
								uses = true
								if x.rename == nil {
									x.rename = map[*types.Var]string{}
								}
								x.rename[obj] = usesCanon[tn] // the Env field this value is bound to
							}
						}
					}
					return true
				})
				if uses {
					// of a merged guard (`ok && (co < Eq || co > Ge)`) only the part that looks at the value
					var parts []ast.Expr
					for _, a := range splitAnd(br.cond) {
						mention := false
						ast.Inspect(a, func(m ast.Node) bool {
							if id, ok := m.(*ast.Ident); ok {
								if obj, ok := info.Uses[id].(*types.Var); ok {
									if nt, ok := obj.Type().(*types.Named); ok && nt.Obj().Name() == tn {
										mention = true
									}
								}
							}
							return true
						})
						if mention {
							parts = append(parts, a)
						}
					}
					if len(parts) == 1 && !inInit {
						br.cond = parts[0]
					}
					if as, ok := br.init.(*ast.AssignStmt); ok && len(as.Lhs) != 1 {
						br.init = nil // `v, ok := x.(T)`: the value is bound to the environment directly
					}
					keep = append(keep, br)
				}
			}
			branches = keep
		}
		if ifKind {
			sort.Slice(branches, func(i, j int) bool { return branches[i].pos < branches[j].pos })
			if cs.k < len(branches) {
				v := branches[cs.k]
				negate = cs.kind == "if+" && v.guard
				found = v.cond
				if v.init != nil {
					as, ok := v.init.(*ast.AssignStmt)
					if !ok {
						die("%s: unsupported if-init at site %s", cs.fn, cs.name)
					}
					initLet = x.assign(as, "")
				}
			}
		}
		_ = ifs
		if found == nil {
			die("%s: site %s #%d not found", cs.fn, cs.kind, cs.k)
		}
		s, t := x.expr(found)
		if negate {
			s = "(!" + s + ")"
		}
		if initLet != "" {
			s = "(" + strings.TrimSuffix(initLet, "\n") + "; " + s + ")"
		}
		if strings.HasPrefix(cs.kind, "assign:") && t == tInt {
			fmt.Fprintf(&b, "/-- from Go `%s` (%s) -/\ndef %s (env : Env) : Int := %s\n\n", cs.fn, posOf(found), cs.name, s)
			continue
		}
		if t != tBool {
			die("%s: site %s is not boolean", cs.fn, cs.name)
		}
		fmt.Fprintf(&b, "/-- from Go `%s` (%s) -/\ndef %s_raw (env : Env) : Bool := %s\n%s\n", cs.fn, posOf(found), cs.name, s, polarisedDef(cs.name))
	}
	b.WriteString("end Gen\n")
	return b.String()
}
