package main

// Lock-placement facts for C10 (Gen/Locks.lean). Additive to Gen/Facts.lean:
// the table `Gen.facts` keeps `locks` / `lockFirst`; this table adds what C10
// needs beyond them, computed with the same syntactic reading of the source:
//
//   guardLocked    after its first lock() call the body has an `if` whose condition (or init)
//                  reads the *content* of the receiver (ulen/len/index/isFull/IsEmpty/Len or an
//                  index expression on the receiver): "validates under the lock"
//   readsUnlocked  the body reads the content of the receiver at a position where it does not
//                  hold the lock (before its first lock() call, or anywhere if it never locks)
//   writesUnlocked the body assigns through the receiver / config pointer at a position before
//                  its first lock() call, or anywhere if it never locks
//   wBeforeAcquire (functions calling X.Lock())   an assignment through receiver/config sits before the Lock() call
//   wAfterRelease  (functions calling X.Unlock()) an assignment through receiver/config sits after the Unlock() call
//   acquires/releases  the body calls X.Lock() / X.Unlock() on a sync.Mutex
//
// Positions are source positions (token.Pos), i.e. straight-line program order;
// every function this is applied to is straight-line up to early returns.

import (
	"fmt"
	"go/ast"
	"go/token"
	"sort"
	"strings"
)

type LockFact struct {
	Recv, Name                                    string
	Locks, LockFirst, GuardLocked                 bool
	ReadsUnlocked, WritesUnlocked                 bool
	Acquires, Releases, WBeforeAcquire, WAfterRel bool
}

var contentReaders = map[string]bool{"ulen": true, "len": true, "index": true, "isFull": true, "IsEmpty": true, "Len": true, "Index": true, "IsFull": true}

func analyseLocks(fd *ast.FuncDecl) LockFact {
	lf := LockFact{Recv: recvName(fd), Name: fd.Name.Name}
	recv := ""
	if fd.Recv != nil && len(fd.Recv.List) > 0 && len(fd.Recv.List[0].Names) > 0 {
		recv = fd.Recv.List[0].Names[0].Name
	}
	cfgVars := map[string]bool{}
	rooted := func(e ast.Expr) bool {
		for {
			switch v := e.(type) {
			case *ast.Ident:
				return v.Name == recv || cfgVars[v.Name]
			case *ast.SelectorExpr:
				e = v.X
			case *ast.StarExpr:
				e = v.X
			case *ast.ParenExpr:
				e = v.X
			case *ast.IndexExpr:
				e = v.X
			case *ast.SliceExpr:
				e = v.X
			default:
				return false
			}
		}
	}
	// isContentRead: a call that reads the receiver's content, or an index/slice expression on it
	isContentRead := func(n ast.Node) bool {
		switch v := n.(type) {
		case *ast.CallExpr:
			switch f := v.Fun.(type) {
			case *ast.Ident: // builtin len(x): only when x is the receiver slice
				return f.Name == "len" && len(v.Args) == 1 && rooted(v.Args[0])
			case *ast.SelectorExpr:
				return contentReaders[f.Sel.Name] && rooted(f.X)
			}
		case *ast.IndexExpr:
			// (*r)[0] is the configuration slot, reached through config(); other index reads are content
			if rooted(v.X) {
				if bl, ok := v.Index.(*ast.BasicLit); ok && bl.Value == "0" {
					return false
				}
				return true
			}
		case *ast.SliceExpr:
			return rooted(v.X)
		}
		return false
	}
	var reads, writes, ifsWithRead []token.Pos
	firstLock, acq, rel := token.NoPos, token.NoPos, token.NoPos
	ast.Inspect(fd.Body, func(n ast.Node) bool {
		switch v := n.(type) {
		case *ast.AssignStmt:
			if len(v.Rhs) == 1 {
				if ce, ok := v.Rhs[0].(*ast.CallExpr); ok && selName(ce.Fun) == "config" {
					if id, ok := v.Lhs[0].(*ast.Ident); ok {
						cfgVars[id.Name] = true
					}
				}
			}
			for _, l := range v.Lhs {
				if _, isID := l.(*ast.Ident); isID {
					continue
				}
				if rooted(l) {
					writes = append(writes, v.Pos())
				}
			}
		case *ast.IncDecStmt:
			if _, isID := v.X.(*ast.Ident); !isID && rooted(v.X) {
				writes = append(writes, v.Pos())
			}
		case *ast.CallExpr:
			switch selName(v.Fun) {
			case "lock":
				lf.Locks = true
				if firstLock == token.NoPos || v.Pos() < firstLock {
					firstLock = v.Pos()
				}
			case "Lock":
				lf.Acquires = true
				acq = v.Pos()
			case "Unlock":
				lf.Releases = true
				rel = v.Pos()
			}
		case *ast.IfStmt:
			has := false
			chk := func(x ast.Node) {
				if x == nil {
					return
				}
				ast.Inspect(x, func(m ast.Node) bool {
					if m != nil && isContentRead(m) {
						has = true
					}
					return true
				})
			}
			if v.Init != nil {
				chk(v.Init)
			}
			chk(v.Cond)
			if has {
				ifsWithRead = append(ifsWithRead, v.Pos())
			}
		}
		if n != nil && isContentRead(n) {
			reads = append(reads, n.Pos())
		}
		return true
	})
	unlocked := func(p token.Pos) bool { return !lf.Locks || p < firstLock }
	lf.LockFirst = lf.Locks
	for _, p := range reads {
		if unlocked(p) {
			lf.ReadsUnlocked = true
			lf.LockFirst = false
		}
	}
	for _, p := range writes {
		if unlocked(p) {
			lf.WritesUnlocked = true
		}
		if lf.Acquires && p < acq {
			lf.WBeforeAcquire = true
		}
		if lf.Releases && p > rel {
			lf.WAfterRel = true
		}
	}
	for _, p := range ifsWithRead {
		if lf.Locks && p > firstLock {
			lf.GuardLocked = true
		}
	}
	return lf
}

func genLocks() string {
	var keys []string
	for k := range funcs {
		keys = append(keys, k)
	}
	sort.Strings(keys)
	var b strings.Builder
	b.WriteString("/- GENERATED by /verif/extract from /repo — do not edit. -/\nnamespace Gen\n\n")
	b.WriteString("structure LFact where\n  recv : String\n  name : String\n  locks : Bool\n  lockFirst : Bool\n  guardLocked : Bool\n  readsUnlocked : Bool\n  writesUnlocked : Bool\n  acquires : Bool\n  releases : Bool\n  wBeforeAcquire : Bool\n  wAfterRelease : Bool\n  deriving Repr\n\n")
	b.WriteString("def lockFacts : List LFact := [\n")
	var rows []string
	for _, k := range keys {
		fd := funcs[k]
		if fd.Body == nil {
			continue
		}
		r := recvName(fd)
		if r != "stack" && r != "Stack" && r != "nodeConfig" {
			continue
		}
		f := analyseLocks(fd)
		rows = append(rows, fmt.Sprintf("  ⟨%q, %q, %v, %v, %v, %v, %v, %v, %v, %v, %v⟩", f.Recv, f.Name, f.Locks, f.LockFirst, f.GuardLocked,
			f.ReadsUnlocked, f.WritesUnlocked, f.Acquires, f.Releases, f.WBeforeAcquire, f.WAfterRel))
	}
	b.WriteString(strings.Join(rows, ",\n"))
	b.WriteString("\n]\n\nend Gen\n")
	return b.String()
}
