package main

// Canonical variable names for the functions whose guard conditions are extracted: the variables a
// function declares (receiver excluded; parameters, results, then locals in source order) are renamed
// to these names by POSITION, so that renaming a variable in the Go source does not break the binding to
// the Env record. Generated once with `extract -dumpvars` from the source the model was written against.

import (
	"fmt"
	"go/ast"
	"go/types"
	"sort"
)

var canonVars = map[string][]string{
	"Condition.Valid":     {"err", "kw", "cop", "assert", "ok"},
	"stack.defrag":        {"max", "start", "spat", "i", "ok", "tpat", "last", "err"},
	"stack.implode":       {"start", "max", "spat", "tpat", "ct"},
	"stack.index":         {"i", "slice", "idx", "ok", "L"},
	"stack.insert":        {"x", "left", "ok", "u1", "cfg", "R"},
	"stack.remove":        {"idx", "slice", "ok", "found", "index", "u1", "contents", "preserved", "cfg", "R", "i"},
	"stack.replace":       {"x", "i", "ok"},
	"stack.swap":          {"i", "j", "ok"},
	"stack.transfer":      {"dest", "ok", "before", "i", "sl"},
	"stack.verifyImplode": {"spat", "tpat", "last", "err", "data", "fail", "i", "key", "result"},
}

func declaredVars(fd *ast.FuncDecl) []*types.Var {
	var vs []*types.Var
	seen := map[*types.Var]bool{}
	add := func(id *ast.Ident) {
		if id == nil || id.Name == "_" {
			return
		}
		if obj, ok := info.Defs[id].(*types.Var); ok && obj != nil && !seen[obj] {
			seen[obj] = true
			vs = append(vs, obj)
		}
	}
	if fd.Type.Params != nil {
		for _, p := range fd.Type.Params.List {
			for _, n := range p.Names {
				add(n)
			}
		}
	}
	if fd.Type.Results != nil {
		for _, p := range fd.Type.Results.List {
			for _, n := range p.Names {
				add(n)
			}
		}
	}
	var ids []*ast.Ident
	ast.Inspect(fd.Body, func(n ast.Node) bool {
		if id, ok := n.(*ast.Ident); ok {
			if _, isDef := info.Defs[id]; isDef {
				ids = append(ids, id)
			}
		}
		return true
	})
	sort.Slice(ids, func(i, j int) bool { return ids[i].Pos() < ids[j].Pos() })
	for _, id := range ids {
		add(id)
	}
	return vs
}

// renameMap: actual variable object -> canonical name
func renameMap(key string, fd *ast.FuncDecl) map[*types.Var]string {
	m := map[*types.Var]string{}
	canon, ok := canonVars[key]
	if !ok {
		return m
	}
	for i, v := range declaredVars(fd) {
		if i < len(canon) && canon[i] != "_" {
			m[v] = canon[i]
		}
	}
	return m
}

func dumpVars() {
	keys := map[string]bool{}
	for _, cs := range condSites {
		keys[cs.fn] = true
	}
	var ks []string
	for k := range keys {
		ks = append(ks, k)
	}
	sort.Strings(ks)
	for _, k := range ks {
		fd := funcs[k]
		if fd == nil {
			continue
		}
		fmt.Printf("\t%q: {", k)
		for i, v := range declaredVars(fd) {
			if i > 0 {
				fmt.Print(", ")
			}
			fmt.Printf("%q", v.Name())
		}
		fmt.Println("},")
	}
}
